package moss

// BOUNDED stand-in (not a proof) for the functions the deductive checks
// cannot reach: the heap iterator (startIterator/Next/SeekTo/Current over
// container/heap) and segmentStack.mergeInto, which the contracts treat as
// trusted or leave uncontracted.  Exhaustive small scope on the REAL code:
//
//   keys      "", "a", "b"                       (3)
//   per key   absent | Set | Del | Merge         (4)   -> 64 segments
//   stacks    every sequence of 1..3 levels drawn from those segments, the
//             lowest level optionally being the lower-level snapshot
//   operator  string append with separator (order sensitive)
//
// For every stack: Get of every key, full iteration, iteration of every
// [start,end) range, SeekTo from a fresh and from an exhausted iterator,
// iteration with deletions, and mergeInto of every upper range (with and
// without a base stack, both tail modes) are compared with a reference fold.
// The bound is stated in the evidence; nothing here counts as proved.

import (
	"bytes"
	"fmt"
	"math/rand"
	"os"
	"strconv"
	"testing"
)

var bKeys = []string{"", "a", "b"}

const (
	bAbsent = iota
	bSet
	bDel
	bMerge
)

type bSegSpec [3]int

func bMkSeg(t *testing.T, spec bSegSpec, level int) *segment {
	seg, _ := newSegment(3, 64)
	for i, k := range bKeys {
		var err error
		switch spec[i] {
		case bSet:
			err = seg.mutate(OperationSet, []byte(k), []byte(fmt.Sprintf("S%d", level)))
		case bDel:
			err = seg.mutate(OperationDel, []byte(k), nil)
		case bMerge:
			err = seg.mutate(OperationMerge, []byte(k), []byte(fmt.Sprintf("M%d", level)))
		}
		if err != nil {
			t.Fatal(err)
		}
	}
	return seg
}

// reference: fold the levels from the oldest to the newest
func bRef(levels []bSegSpec) map[string][]byte {
	out := map[string][]byte{}
	for i, k := range bKeys {
		var v []byte
		for l, spec := range levels {
			switch spec[i] {
			case bSet:
				v = []byte(fmt.Sprintf("S%d", l))
			case bDel:
				v = nil
			case bMerge:
				v = []byte(string(v) + ":" + fmt.Sprintf("M%d", l))
			}
		}
		if v != nil {
			out[k] = v
		}
	}
	return out
}

func bSpecs() []bSegSpec {
	var out []bSegSpec
	for a := 0; a < 4; a++ {
		for b := 0; b < 4; b++ {
			for c := 0; c < 4; c++ {
				out = append(out, bSegSpec{a, b, c})
			}
		}
	}
	return out
}

var bOpts = &CollectionOptions{MergeOperator: &MergeOperatorStringAppend{Sep: ":"}}

// bStack builds a stack over levels; when withLower the oldest level is the lower-level snapshot.
func bStack(t *testing.T, levels []bSegSpec, withLower bool, firstLevel int) *segmentStack {
	ss := &segmentStack{options: bOpts, refs: 1 << 30}
	start := 0
	if withLower {
		ll := &segmentStack{options: bOpts, refs: 1 << 30, a: []Segment{bMkSeg(t, levels[0], firstLevel)}}
		ss.lowerLevelSnapshot = NewSnapshotWrapper(ll, nil)
		ss.lowerLevelSnapshot.refCount = 1 << 30
		start = 1
	}
	for l := start; l < len(levels); l++ {
		ss.a = append(ss.a, bMkSeg(t, levels[l], firstLevel+l))
	}
	return ss
}

type bKV struct {
	k string
	v []byte
}

func bExpectRange(ref map[string][]byte, start, end []byte) []bKV {
	var out []bKV
	for _, k := range bKeys {
		if start != nil && bytes.Compare([]byte(k), start) < 0 {
			continue
		}
		if end != nil && bytes.Compare([]byte(k), end) >= 0 {
			continue
		}
		if v, ok := ref[k]; ok {
			out = append(out, bKV{k, v})
		}
	}
	return out
}

func bDrain(it Iterator, skipDeletions bool) ([]bKV, error) {
	var out []bKV
	for n := 0; n < 100; n++ {
		ex, k, v, err := it.CurrentEx()
		if err == ErrIteratorDone {
			return out, nil
		}
		if err != nil {
			return out, err
		}
		if ex.Operation == OperationDel {
			if !skipDeletions {
				return out, fmt.Errorf("deletion entry %q enumerated without IncludeDeletions", k)
			}
		} else {
			if ex.Operation == OperationMerge {
				// resolve like Iterator.Current does
				_, v2, err2 := it.Current()
				if err2 != nil {
					return out, err2
				}
				v = v2
			}
			out = append(out, bKV{string(k), append([]byte(nil), v...)})
		}
		if err = it.Next(); err != nil && err != ErrIteratorDone {
			return out, err
		}
		if err == ErrIteratorDone {
			// Current must agree
			if _, _, e2 := it.Current(); e2 != ErrIteratorDone {
				return out, fmt.Errorf("Next said done, Current says %v", e2)
			}
			return out, nil
		}
	}
	return out, fmt.Errorf("iterator does not terminate")
}

func bSame(a, b []bKV) bool {
	if len(a) != len(b) {
		return false
	}
	for i := range a {
		if a[i].k != b[i].k || !bytes.Equal(a[i].v, b[i].v) || (a[i].v == nil) != (b[i].v == nil) {
			return false
		}
	}
	return true
}

func bCheckReads(t *testing.T, what string, ss *segmentStack, ref map[string][]byte) bool {
	fail := func(f string, a ...interface{}) bool {
		t.Errorf("VERIF-BOUNDED %s: %s", what, fmt.Sprintf(f, a...))
		return false
	}
	for _, k := range bKeys {
		v, err := ss.Get([]byte(k), ReadOptions{})
		if err != nil || !bytes.Equal(v, ref[k]) || (v == nil) != (ref[k] == nil) {
			return fail("Get(%q) = %q, %v; reference %q", k, v, err, ref[k])
		}
	}
	bounds := [][]byte{nil, []byte(""), []byte("a"), []byte("b"), []byte("c")}
	for _, s := range bounds {
		for _, e := range bounds {
			for _, incl := range []bool{false, true} {
				it, err := ss.StartIterator(s, e, IteratorOptions{IncludeDeletions: incl})
				if err != nil {
					return fail("StartIterator(%q,%q): %v", s, e, err)
				}
				got, err := bDrain(it, incl)
				it.Close()
				want := bExpectRange(ref, s, e)
				if len(s) == 0 && s != nil {
					want = bExpectRange(ref, nil, e)
				}
				if err != nil || !bSame(got, want) {
					return fail("iteration [%q,%q) deletions=%v = %v (%v); reference %v", s, e, incl, got, err, want)
				}
			}
		}
	}
	// SeekTo from a fresh and from an exhausted iterator
	for _, exhausted := range []bool{false, true} {
		for _, target := range []string{"", "a", "b", "c"} {
			it, err := ss.StartIterator(nil, nil, IteratorOptions{})
			if err != nil {
				return fail("StartIterator: %v", err)
			}
			if exhausted {
				for it.Next() == nil {
				}
			}
			err = it.SeekTo([]byte(target))
			want := bExpectRange(ref, []byte(target), nil)
			if err != nil && err != ErrIteratorDone {
				it.Close()
				return fail("SeekTo(%q) exhausted=%v: %v", target, exhausted, err)
			}
			got, derr := bDrain(it, false)
			it.Close()
			if err == ErrIteratorDone && len(want) > 0 {
				return fail("SeekTo(%q) exhausted=%v returned done; reference continues with %v", target, exhausted, want)
			}
			if derr != nil || !bSame(got, want) {
				return fail("after SeekTo(%q) exhausted=%v: %v (%v); reference %v", target, exhausted, got, derr, want)
			}
		}
	}
	// two consecutive seeks on a range iterator: the start bound must survive a restart
	for _, start := range []string{"nil", "a", "b"} {
		for _, t1 := range []string{"", "a", "b", "c"} {
			for _, t2 := range []string{"", "a", "b"} {
				var startKey []byte
				if start != "nil" {
					startKey = []byte(start)
				}
				it, err := ss.StartIterator(startKey, nil, IteratorOptions{})
				if err != nil {
					return fail("StartIterator: %v", err)
				}
				lower := start
				if start == "nil" {
					// exhaust first, so that both seeks go backwards (restart the iterator)
					for it.Next() == nil {
					}
					lower = ""
				}
				if err = it.SeekTo([]byte(t1)); err != nil && err != ErrIteratorDone {
					it.Close()
					return fail("SeekTo(%q) on [%q,nil): %v", t1, lower, err)
				}
				err = it.SeekTo([]byte(t2))
				from := t2
				if from < lower {
					from = lower
				}
				want := bExpectRange(ref, []byte(from), nil)
				if err != nil && err != ErrIteratorDone {
					it.Close()
					return fail("SeekTo(%q) after SeekTo(%q) on [%q,nil): %v", t2, t1, start, err)
				}
				got, derr := bDrain(it, false)
				it.Close()
				if derr != nil || !bSame(got, want) {
					return fail("[%q,nil): SeekTo(%q) then SeekTo(%q): %v (%v); reference %v", start, t1, t2, got, derr, want)
				}
			}
		}
	}
	return true
}

func TestVerifBoundedIterMerge(t *testing.T) {
	specs := bSpecs()
	// thorough: every stack of up to 3 levels (about 516 000 stacks, minutes).
	// quick: every stack of up to 2 levels plus a seeded random sample of
	// 3-level stacks.
	maxLevels := 2
	samples := 1500
	if os.Getenv("VERIF_TIER") == "thorough" {
		maxLevels = 3
		samples = 0
	}
	seed := int64(1)
	if v, err := strconv.ParseInt(os.Getenv("VERIF_SEED"), 10, 64); err == nil {
		seed = v
	}
	n := 0
	var rec func(levels []bSegSpec)
	check := func(levels []bSegSpec) bool {
		ref := bRef(levels)
		for _, withLower := range []bool{false, true} {
			if withLower && len(levels) < 2 {
				continue
			}
			ss := bStack(t, levels, withLower, 0)
			what := fmt.Sprintf("levels=%v lower=%v", levels, withLower)
			if !bCheckReads(t, what, ss, ref) {
				return false
			}
			n++
			// mergeInto of every upper range [lo, len): prefix ++ [merged] must read the same
			for lo := 0; lo < len(ss.a); lo++ {
				for _, tail := range []bool{true, false} {
					dest, _ := newSegment(8, 256)
					if err := ss.mergeInto(lo, len(ss.a), dest, nil, true, tail, nil); err != nil {
						t.Errorf("VERIF-BOUNDED %s: mergeInto(%d) failed: %v", what, lo, err)
						return false
					}
					m := &segmentStack{options: bOpts, refs: 1 << 30, lowerLevelSnapshot: ss.lowerLevelSnapshot}
					m.a = append(append([]Segment{}, ss.a[:lo]...), dest)
					if !bCheckReads(t, fmt.Sprintf("%s mergeInto(lo=%d, tail=%v)", what, lo, tail), m, ref) {
						return false
					}
				}
			}
			// merge of the upper levels over a base stack (the persister's in-flight stack)
			if len(ss.a) >= 2 {
				base := &segmentStack{options: bOpts, refs: 1 << 30, a: ss.a[:1], lowerLevelSnapshot: ss.lowerLevelSnapshot}
				mid := &segmentStack{options: bOpts, refs: 1 << 30, a: ss.a[1:], lowerLevelSnapshot: ss.lowerLevelSnapshot}
				dest, _ := newSegment(8, 256)
				if err := mid.mergeInto(0, len(mid.a), dest, base, true, true, nil); err != nil {
					t.Errorf("VERIF-BOUNDED %s: mergeInto over base failed: %v", what, err)
					return false
				}
				m := &segmentStack{options: bOpts, refs: 1 << 30, lowerLevelSnapshot: ss.lowerLevelSnapshot}
				m.a = []Segment{ss.a[0], dest}
				if !bCheckReads(t, what+" mergeInto over base", m, ref) {
					return false
				}
			}
		}
		return true
	}
	stop := false
	rec = func(levels []bSegSpec) {
		if stop {
			return
		}
		if len(levels) > 0 {
			if !check(levels) {
				stop = true
				return
			}
		}
		if len(levels) == maxLevels {
			return
		}
		for _, s := range specs {
			// an all-absent level adds nothing new above the first level
			if s == (bSegSpec{}) && len(levels) > 0 {
				continue
			}
			rec(append(append([]bSegSpec{}, levels...), s))
			if stop {
				return
			}
		}
	}
	rec(nil)
	rng := rand.New(rand.NewSource(seed))
	for i := 0; i < samples && !stop; i++ {
		levels := []bSegSpec{specs[rng.Intn(len(specs))], specs[rng.Intn(len(specs))], specs[rng.Intn(len(specs))]}
		if !check(levels) {
			stop = true
		}
	}
	t.Logf("VERIF-BOUNDED-STATS samples=%d seed=%d", samples, seed)
	t.Logf("VERIF-BOUNDED-STATS stacks=%d keys=%d ops-per-key=4 max-levels=%d", n, len(bKeys), maxLevels)
}
