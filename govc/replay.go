package main

// Replay on the real code.
//
// A failed obligation carries no model when quantifiers are involved (the
// solvers answer unknown/timeout).  Failing inputs are therefore kept as
// *witness tests*: in-package Go tests under /verif/witness, one per finding
// that was ever reproduced, keyed by obligation in known_findings.json.  When
// an obligation with a witness fails, the witness is run against the tree
// being checked (go test -overlay, nothing is written into the repository):
// if it fails there, the violation is reported with that replay; otherwise
// the violation line ends with no-failing-input-found.

import (
	"encoding/json"
	"fmt"
	"os"
	"os/exec"
	"path/filepath"
	"strings"
	"time"
)

type witnessResult struct {
	Witness  string  `json:"witness"`
	Failed   bool    `json:"failed_on_this_tree"`
	Output   string  `json:"output"`
	Seconds  float64 `json:"seconds"`
	RunError string  `json:"run_error,omitempty"`
}

// runWitness runs "witness/file_test.go:TestName" against repo.
func runWitness(verif, repo, spec string) *witnessResult {
	parts := strings.SplitN(spec, ":", 2)
	res := &witnessResult{Witness: spec}
	if len(parts) != 2 {
		res.RunError = "bad witness spec"
		return res
	}
	file := filepath.Join(verif, parts[0])
	if _, err := os.Stat(file); err != nil {
		res.RunError = "witness file missing"
		return res
	}
	tmp, err := os.MkdirTemp("", "govc-witness-")
	if err != nil {
		res.RunError = err.Error()
		return res
	}
	defer os.RemoveAll(tmp)
	ov := map[string]map[string]string{"Replace": {filepath.Join(repo, "zz_verif_witness_test.go"): file}}
	b, _ := json.Marshal(ov)
	ovPath := filepath.Join(tmp, "ov.json")
	os.WriteFile(ovPath, b, 0o644)
	start := time.Now()
	cmd := exec.Command("go", "test", "-overlay", ovPath, "-vet=off", "-count=1", "-timeout", "180s", "-run", "^"+parts[1]+"$", ".")
	cmd.Dir = repo
	cmd.Env = append(os.Environ(), "GOFLAGS=-mod=mod", "GOPROXY=off", "GOSUMDB=off", "GOTOOLCHAIN=local")
	out, err := cmd.CombinedOutput()
	res.Seconds = time.Since(start).Seconds()
	s := string(out)
	if len(s) > 4000 {
		s = s[:4000]
	}
	res.Output = s
	res.Failed = err != nil && (strings.Contains(s, "VERIF-WITNESS") || strings.Contains(s, "--- FAIL") || strings.Contains(s, "panic:"))
	if err != nil && !res.Failed {
		res.RunError = fmt.Sprintf("go test: %v", err)
	}
	return res
}

// tryReplay looks for a witness of the failed obligation and runs it on the
// tree under check.
func tryReplay(eng *Engine, verif, prop string, r *Result) (bool, map[string]interface{}) {
	id := oblID(r.Obl)
	var tried []*witnessResult
	seen := map[string]bool{}
	for _, k := range loadKnown(verif) {
		if k.Obligation != id || k.Witness == "" || seen[k.Witness] {
			continue
		}
		seen[k.Witness] = true
		w := runWitness(verif, eng.repo, k.Witness)
		tried = append(tried, w)
		if w.Failed {
			return true, map[string]interface{}{
				"kind":    "witness test (a stored failing input of this obligation) run against the tree under check with go test -overlay",
				"witness": w.Witness,
				"output":  w.Output,
				"seconds": w.Seconds,
				"rerun":   fmt.Sprintf("cd %s && go test -overlay <(echo '{\"Replace\":{\"%s/zz_verif_witness_test.go\":\"%s\"}}') -vet=off -count=1 -run '^%s$' .", eng.repo, eng.repo, filepath.Join(verif, strings.SplitN(w.Witness, ":", 2)[0]), strings.SplitN(w.Witness, ":", 2)[1]),
			}
		}
	}
	if len(tried) > 0 {
		return false, map[string]interface{}{"witnesses_tried": tried, "note": "the stored witnesses of this obligation pass on this tree"}
	}
	return false, nil
}
