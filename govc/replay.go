package main

// Counterexample search and replay on the real code (see replay families in
// DESIGN.md 4.3).  Filled in per family; the default is "no input found".

func tryReplay(eng *Engine, verif, prop string, r *Result) (bool, map[string]interface{}) {
	return false, nil
}
