package main

// Maps and map range loops.
//
// A map value is a reference; per map type there are three heaps:
//   MD$<type> : ref -> (key -> Bool)     domain
//   MV$<type> : ref -> (key -> V)        values (scalar values only)
//   ML$<type> : ref -> Int               len
// Range iteration keeps a ghost visited set RV$<type> : iter -> (key -> Bool).

import (
	"fmt"
	"go/types"

	"golang.org/x/tools/go/ssa"
)

type mapHeaps struct {
	dom, val, ln, vis string
	ksort, vsort      string
	mt                *types.Map
}

func (fr *Frame) mapHeaps(t types.Type) *mapHeaps {
	mt := t.Underlying().(*types.Map)
	name := fr.eng.typeName(mt)
	ks := sortOf(mt.Key())
	vs := sortOf(mt.Elem())
	mh := &mapHeaps{dom: "MD$" + name, val: "MV$" + name, ln: "ML$" + name, vis: "RV$" + name, ksort: ks, vsort: vs, mt: mt}
	hs := fr.vc.heapSort
	if ks == "" {
		ks = sInt
		mh.ksort = sInt
	}
	hs[mh.dom] = arrSort("(Array " + ks + " Bool)")
	if vs != "" {
		hs[mh.val] = arrSort("(Array " + ks + " " + vs + ")")
	}
	if vs == sInt && s_isRef(mt.Elem()) {
		fr.vc.heapRef[mh.val] = "map:" + ks
	}
	hs[mh.ln] = arrSort(sInt)
	hs[mh.vis] = arrSort("(Array " + ks + " Bool)")
	return mh
}

func (fr *Frame) makeMap(i *ssa.MakeMap) *Val {
	mh := fr.mapHeaps(i.Type())
	r := fr.newRef("map")
	vc := fr.vc
	vc.heapSet(fr.st, mh.dom, sto(vc.heapGet(fr.st, mh.dom), r, fmt.Sprintf("((as const (Array %s Bool)) false)", mh.ksort)))
	vc.heapSet(fr.st, mh.ln, sto(vc.heapGet(fr.st, mh.ln), r, "0"))
	return &Val{t: r, sort: sInt, typ: i.Type()}
}

func (fr *Frame) mapLen(t types.Type, m *Val) *Val {
	mh := fr.mapHeaps(t)
	v := &Val{t: sel(fr.vc.heapGet(fr.st, mh.ln), fr.scalar(m)), sort: sInt, typ: tInt}
	if !fr.eng.noWF || !hasBoundVar(v.t) {
		fr.vc.fact(and(app("<=", "0", v.t), implies(eq(fr.scalar(m), "0"), eq(v.t, "0"))))
		if !hasBoundVar(v.t) {
			// a map of length 0 has no keys
			fr.mapWFFacts(mh, fr.scalar(m))
		}
	}
	return v
}

func (fr *Frame) mapHas(t types.Type, m, k *Val) *Val {
	mh := fr.mapHeaps(t)
	return boolVal(and(app("distinct", fr.scalar(m), "0"), sel(sel(fr.vc.heapGet(fr.st, mh.dom), fr.scalar(m)), fr.scalar(k))))
}

func (fr *Frame) mapGet(t types.Type, m, k *Val) *Val {
	mh := fr.mapHeaps(t)
	if mh.vsort == "" {
		efail("map with struct values is not modelled")
	}
	return &Val{t: sel(sel(fr.vc.heapGet(fr.st, mh.val), fr.scalar(m)), fr.scalar(k)), sort: mh.vsort, typ: mh.mt.Elem()}
}

// mapWF: facts tying len to the domain that hold for every map.
func (fr *Frame) mapWFFacts(mh *mapHeaps, m string) {
	vc := fr.vc
	ln := sel(vc.heapGet(fr.st, mh.ln), m)
	dom := sel(vc.heapGet(fr.st, mh.dom), m)
	vc.fact(app("<=", "0", ln))
	vc.fact(implies(eq(ln, "0"), fmt.Sprintf("(forall ((k! %s)) (! (not (select %s k!)) :pattern ((select %s k!))))", mh.ksort, dom, dom)))
	vc.fact(implies(eq(m, "0"), eq(ln, "0")))
}

func (fr *Frame) lookup(i *ssa.Lookup) *Val {
	x := fr.value(i.X)
	if _, ok := i.X.Type().Underlying().(*types.Map); !ok {
		fr.vc.abstracted("string index")
		return fr.havocVal(i.Type(), "stridx")
	}
	mh := fr.mapHeaps(i.X.Type())
	m := fr.scalar(x)
	k := fr.scalar(fr.value(i.Index))
	fr.mapWFFacts(mh, m)
	has := and(app("distinct", m, "0"), sel(sel(fr.vc.heapGet(fr.st, mh.dom), m), k))
	var v *Val
	if mh.vsort == "" {
		fr.vc.abstracted("map with struct values: lookup unconstrained")
		v = fr.havocVal(mh.mt.Elem(), "mapval")
	} else {
		raw := sel(sel(fr.vc.heapGet(fr.st, mh.val), m), k)
		z := fr.zero(mh.mt.Elem())
		c := fr.vc.fresh("mapget", mh.vsort)
		fr.vc.fact(eq(c, ite(has, raw, z.t)))
		if fr.eng.nonNilMaps[fr.eng.typeName(mh.mt)] {
			fr.vc.fact(implies(has, app("distinct", raw, "0")))
		}
		v = &Val{t: c, sort: mh.vsort, typ: mh.mt.Elem()}
		if !fr.eng.noWF {
			fr.assumeWF(v)
		}
	}
	if i.CommaOk {
		return &Val{typ: i.Type(), tuple: []*Val{v, boolVal(has)}}
	}
	return v
}

func (fr *Frame) mapUpdate(i *ssa.MapUpdate) {
	mh := fr.mapHeaps(i.Map.Type())
	vc := fr.vc
	m := fr.scalar(fr.value(i.Map))
	k := fr.scalar(fr.value(i.Key))
	fr.oblige("P0", fr.ordName("P0/nil-map"), app("distinct", m, "0"))
	if fr.eng.nonNilMaps[fr.eng.typeName(mh.mt)] {
		fr.oblige("map-invariant", fr.ordName("map-values-nonnil"), app("distinct", fr.scalar(fr.value(i.Value)), "0"))
	}
	domH := vc.heapGet(fr.st, mh.dom)
	lnH := vc.heapGet(fr.st, mh.ln)
	had := sel(sel(domH, m), k)
	vc.heapSet(fr.st, mh.ln, sto(lnH, m, ite(had, sel(lnH, m), app("+", sel(lnH, m), "1"))))
	vc.heapSet(fr.st, mh.dom, sto(domH, m, sto(sel(domH, m), k, "true")))
	if mh.vsort != "" {
		valH := vc.heapGet(fr.st, mh.val)
		vc.heapSet(fr.st, mh.val, sto(valH, m, sto(sel(valH, m), k, fr.scalar(fr.value(i.Value)))))
	} else {
		vc.abstracted("map with struct values: update not recorded")
	}
}

func (fr *Frame) mapDelete(t types.Type, mv, kv *Val) {
	mh := fr.mapHeaps(t)
	vc := fr.vc
	m, k := fr.scalar(mv), fr.scalar(kv)
	domH := vc.heapGet(fr.st, mh.dom)
	lnH := vc.heapGet(fr.st, mh.ln)
	had := and(app("distinct", m, "0"), sel(sel(domH, m), k))
	vc.heapSet(fr.st, mh.ln, sto(lnH, m, ite(had, app("-", sel(lnH, m), "1"), sel(lnH, m))))
	vc.heapSet(fr.st, mh.dom, ite(eq(m, "0"), domH, sto(domH, m, sto(sel(domH, m), k, "false"))))
}

// rangeStart: map iteration begins with an empty visited set.
func (fr *Frame) rangeStart(i *ssa.Range) *Val {
	if _, ok := i.X.Type().Underlying().(*types.Map); !ok {
		fr.vc.abstracted("range over string")
		return fr.havocVal(types.Typ[types.Int], "striter")
	}
	mh := fr.mapHeaps(i.X.Type())
	it := fr.newRef("iter")
	vc := fr.vc
	vc.heapSet(fr.st, mh.vis, sto(vc.heapGet(fr.st, mh.vis), it, fmt.Sprintf("((as const (Array %s Bool)) false)", mh.ksort)))
	fr.mapWFFacts(mh, fr.scalar(fr.value(i.X)))
	return &Val{t: it, sort: sInt, typ: i.Type()}
}

func (fr *Frame) rangeNext(i *ssa.Next) *Val {
	tup := i.Type().(*types.Tuple)
	if i.IsString {
		fr.vc.abstracted("range over string")
		return fr.havocVal(tup, "strnext")
	}
	rg := i.Iter.(*ssa.Range)
	mh := fr.mapHeaps(rg.X.Type())
	vc := fr.vc
	it := fr.scalar(fr.value(i.Iter))
	m := fr.scalar(fr.value(rg.X))
	ok := vc.fresh("next_ok", sBool)
	k := vc.fresh("next_k", mh.ksort)
	visH := vc.heapGet(fr.st, mh.vis)
	vis := sel(visH, it)
	dom := sel(vc.heapGet(fr.st, mh.dom), m)
	fr.assume(implies(ok, and(sel(dom, k), not(sel(vis, k)), app("distinct", m, "0"))))
	fr.assume(implies(not(ok), fmt.Sprintf("(forall ((k! %s)) (! (=> (select %s k!) (select %s k!)) :pattern ((select %s k!))))", mh.ksort, dom, vis, dom)))
	var v *Val
	if mh.vsort != "" {
		vt := vc.fresh("next_v", mh.vsort)
		v = &Val{t: vt, sort: mh.vsort, typ: mh.mt.Elem()}
		fr.assumeWF(v)
		fr.assume(implies(ok, eq(vt, sel(sel(vc.heapGet(fr.st, mh.val), m), k))))
		if fr.eng.nonNilMaps[fr.eng.typeName(mh.mt)] {
			fr.assume(implies(ok, app("distinct", vt, "0")))
		}
	} else {
		v = fr.havocVal(mh.mt.Elem(), "next_v")
	}
	vc.heapSet(fr.st, mh.vis, sto(visH, it, ite(ok, sto(vis, k, "true"), vis)))
	kv := &Val{t: k, sort: mh.ksort, typ: mh.mt.Key()}
	if tup.At(1).Type() == types.Typ[types.Invalid] || tup.Len() < 3 {
		return &Val{typ: tup, tuple: []*Val{boolVal(ok), kv, v}}
	}
	return &Val{typ: tup, tuple: []*Val{boolVal(ok), kv, v}}
}

// rangeVisited: visited(k) inside an invariant of a map range loop refers to
// the iterator of the (unique) Range instruction feeding the loop's Next.
func (fr *Frame) rangeVisited(ctx *evalCtx, k *Val) *Val {
	if ctx.loop == nil {
		efail("visited() outside a loop invariant")
	}
	for b := range ctx.loop.blocks {
		for _, in := range b.Instrs {
			if nx, ok := in.(*ssa.Next); ok && !nx.IsString {
				rg := nx.Iter.(*ssa.Range)
				mh := fr.mapHeaps(rg.X.Type())
				it := fr.scalar(fr.value(nx.Iter))
				return boolVal(sel(sel(fr.vc.heapGet(fr.st, mh.vis), it), fr.scalar(k)))
			}
		}
	}
	efail("visited(): loop is not a map range loop")
	return nil
}
