package main

import (
	"fmt"
	"math/big"
	"go/token"
	"go/types"
	"os"
	"sort"
	"strings"

	"golang.org/x/tools/go/packages"
	"golang.org/x/tools/go/ssa"
	"golang.org/x/tools/go/ssa/ssautil"
)

type Engine struct {
	prog    *ssa.Program
	pkg     *ssa.Package
	tpkg    *types.Package
	fset    *token.FileSet
	cf      *ContractFile
	fnByKey map[string]*ssa.Function
	keyByFn map[*ssa.Function]string
	fnIDs   map[*ssa.Function]int
	strIDs  map[string]int
	tags    map[string]int
	tagType map[int]types.Type
	specs   map[string]*specInfo
	heapSorts   map[string]string
	recLimited  map[string]bool
	specCallees map[string][]string
	typeCache   map[string]types.Type
	wsCache     map[*ssa.Function]*writeSet
	wsBusy      map[*ssa.Function]bool
	bvCerts     map[string]bool
	noWF        bool
	pureIfaceMethods map[string]bool
	guarded     map[string]string // heap name -> mutex heap path (see locks.go)
	bitsUsed    map[[2]int]bool
	locks       map[string]*lockSpec
	guardedBy   map[string]*lockSpec
	immutable   map[string]bool // heap names of fields that are only written at construction
	nonNilMaps  map[string]bool // typeName of map types with non-nil values
	repo        string
}

func loadEngine(repo string) (*Engine, error) {
	cfg := &packages.Config{Mode: packages.LoadAllSyntax, Dir: repo, BuildFlags: []string{"-tags=verif"},
		Env: append(os.Environ(), "GOFLAGS=-mod=mod", "GOPROXY=off", "GOSUMDB=off", "GOTOOLCHAIN=local")}
	pkgs, err := packages.Load(cfg, ".")
	if err != nil {
		return nil, err
	}
	if len(pkgs) != 1 {
		return nil, fmt.Errorf("expected one package, got %d", len(pkgs))
	}
	if len(pkgs[0].Errors) > 0 {
		return nil, fmt.Errorf("package errors: %v", pkgs[0].Errors)
	}
	prog, spkgs := ssautil.AllPackages(pkgs, ssa.GlobalDebug)
	prog.Build()
	eng := &Engine{prog: prog, pkg: spkgs[0], tpkg: pkgs[0].Types, fset: pkgs[0].Fset, repo: repo,
		fnByKey: map[string]*ssa.Function{}, keyByFn: map[*ssa.Function]string{}, fnIDs: map[*ssa.Function]int{},
		strIDs: map[string]int{"": 0}, tags: map[string]int{}, tagType: map[int]types.Type{}, specs: map[string]*specInfo{},
		heapSorts: map[string]string{}, recLimited: map[string]bool{}, specCallees: map[string][]string{},
		typeCache: map[string]types.Type{}, wsCache: map[*ssa.Function]*writeSet{}, wsBusy: map[*ssa.Function]bool{},
		bvCerts: map[string]bool{}, pureIfaceMethods: map[string]bool{}, guarded: map[string]string{}}
	// index functions (incl. methods and anonymous functions)
	var addFn func(f *ssa.Function)
	addFn = func(f *ssa.Function) {
		if f == nil {
			return
		}
		k := eng.computeKey(f)
		eng.fnByKey[k] = f
		eng.keyByFn[f] = k
		for _, a := range f.AnonFuncs {
			addFn(a)
		}
	}
	for _, m := range eng.pkg.Members {
		switch x := m.(type) {
		case *ssa.Function:
			addFn(x)
		case *ssa.Type:
			for _, t := range []types.Type{x.Type(), types.NewPointer(x.Type())} {
				ms := prog.MethodSets.MethodSet(t)
				for i := 0; i < ms.Len(); i++ {
					addFn(prog.MethodValue(ms.At(i)))
				}
			}
		}
	}
	cf, err := parseContractFile(repo + "/verif_contracts.go")
	if err != nil {
		return nil, err
	}
	eng.cf = cf
	if err := eng.initLocks(); err != nil {
		return nil, err
	}
	eng.nonNilMaps = map[string]bool{}
	for _, ts := range cf.NonNilMaps {
		if t := eng.parseType(ts); t != nil {
			eng.nonNilMaps[eng.typeName(t.Underlying())] = true
		}
	}
	eng.immutable = map[string]bool{}
	for _, f := range cf.Immutable {
		eng.immutable["F$"+f] = true
	}
	return eng, nil
}

func (e *Engine) computeKey(f *ssa.Function) string {
	if f.Parent() != nil {
		return e.computeKey(f.Parent()) + f.Name()[strings.LastIndex(f.Name(), "$"):]
	}
	if recv := f.Signature.Recv(); recv != nil {
		t := recv.Type()
		if p, ok := t.(*types.Pointer); ok {
			t = p.Elem()
		}
		if f.Synthetic != "" && strings.Contains(f.Synthetic, "wrapper") {
			return "wrapper:" + e.typeName(t) + "." + f.Name()
		}
		return e.typeName(t) + "." + f.Name()
	}
	if f.Pkg != nil && f.Pkg != e.pkg {
		return f.Pkg.Pkg.Path() + "." + f.Name()
	}
	return f.Name()
}

func (e *Engine) keyOf(f *ssa.Function) string {
	if k, ok := e.keyByFn[f]; ok {
		return k
	}
	k := e.computeKey(f)
	e.keyByFn[f] = k
	return k
}

func (e *Engine) fnID(f *ssa.Function) int {
	if id, ok := e.fnIDs[f]; ok {
		return id
	}
	id := len(e.fnIDs) + 1
	e.fnIDs[f] = id
	return id
}

func (e *Engine) strID(s string) int {
	if id, ok := e.strIDs[s]; ok {
		return id
	}
	id := len(e.strIDs)
	e.strIDs[s] = id
	return id
}

func (e *Engine) typeTag(t types.Type) int {
	k := types.TypeString(t, nil)
	if id, ok := e.tags[k]; ok {
		return id
	}
	id := len(e.tags) + 1
	e.tags[k] = id
	e.tagType[id] = t
	return id
}

func (e *Engine) globalName(g *ssa.Global) string {
	if g.Pkg == e.pkg {
		return g.Name()
	}
	return g.Pkg.Pkg.Name() + "_" + g.Name()
}

func (e *Engine) isByte(t types.Type) bool {
	b, ok := t.Underlying().(*types.Basic)
	return ok && b.Kind() == types.Uint8
}

func (e *Engine) bvCert(rule string) { e.bvCerts[rule] = true }

// bitsTerm is the uninterpreted bit field (x div 2^lo) mod 2^(hi-lo).
func (e *Engine) bitsTerm(x string, lo, hi int) string {
	if isLiteral(x) && !strings.HasPrefix(x, "(") {
		if bi, ok := new(big.Int).SetString(x, 10); ok {
			r := new(big.Int).Rsh(bi, uint(lo))
			r.Mod(r, pow2[hi-lo])
			return r.String()
		}
	}
	if e.bitsUsed == nil {
		e.bitsUsed = map[[2]int]bool{}
	}
	e.bitsUsed[[2]int{lo, hi}] = true
	return app(fmt.Sprintf("BITS_%d_%d", lo, hi), x)
}

// bitsDecls: declarations and range axioms (and exact definitions if asked).
func (e *Engine) bitsDecls(exact bool) string {
	var keys [][2]int
	for k := range e.bitsUsed {
		keys = append(keys, k)
	}
	sort.Slice(keys, func(i, j int) bool { return keys[i][0] < keys[j][0] || (keys[i][0] == keys[j][0] && keys[i][1] < keys[j][1]) })
	var b strings.Builder
	for _, k := range keys {
		f := fmt.Sprintf("BITS_%d_%d", k[0], k[1])
		w := bigLit(pow2[k[1]-k[0]])
		b.WriteString(fmt.Sprintf("(declare-fun %s (Int) Int)\n", f))
		b.WriteString(fmt.Sprintf("(assert (forall ((x Int)) (! (and (<= 0 (%s x)) (< (%s x) %s)) :pattern ((%s x)))))\n", f, f, w, f))
		if exact {
			b.WriteString(fmt.Sprintf("(assert (forall ((x Int)) (! (= (%s x) (mod (div x %s) %s)) :pattern ((%s x)))))\n", f, bigLit(pow2[k[0]]), w, f))
		}
	}
	return b.String()
}

func (e *Engine) ifaceMethod(key string) *types.Func {
	i := strings.Index(key, ".")
	if i < 0 {
		return nil
	}
	obj := e.tpkg.Scope().Lookup(key[:i])
	if obj == nil {
		return nil
	}
	it, ok := obj.Type().Underlying().(*types.Interface)
	if !ok {
		return nil
	}
	for j := 0; j < it.NumMethods(); j++ {
		if it.Method(j).Name() == key[i+1:] {
			return it.Method(j)
		}
	}
	return nil
}

func (e *Engine) scratchFrame() *Frame {
	vc := newVC(e, "spec")
	st := &State{heaps: map[string]string{}, alloc: "alloc!s"}
	return &Frame{eng: e, vc: vc, vals: map[ssa.Value]*Val{}, st: st, entry: st, reach: "true", key: "spec"}
}

// ---------------------------------------------------------------------
// write sets

type writeSet struct {
	heaps  map[string]string // heap name -> sort
	allocs bool
	all    bool
}

func (w *writeSet) merge(o *writeSet) {
	for k, v := range o.heaps {
		w.heaps[k] = v
	}
	w.allocs = w.allocs || o.allocs
	w.all = w.all || o.all
}

func (e *Engine) writeSetOf(fn *ssa.Function) *writeSet {
	if ws, ok := e.wsCache[fn]; ok {
		return ws
	}
	if e.wsBusy[fn] {
		return &writeSet{heaps: map[string]string{}}
	}
	e.wsBusy[fn] = true
	ws := &writeSet{heaps: map[string]string{}}
	for _, b := range fn.Blocks {
		e.scanBlock(nil, b, ws)
	}
	delete(e.wsBusy, fn)
	e.wsCache[fn] = ws
	return ws
}

func (e *Engine) writeSetOfBlocks(fr *Frame, blocks map[*ssa.BasicBlock]bool) *writeSet {
	ws := &writeSet{heaps: map[string]string{}}
	for b := range blocks {
		e.scanBlock(fr, b, ws)
	}
	return ws
}

// addrLeaves: heap names (with sorts) a store through address value `a` may write.
func (e *Engine) addrLeaves(a ssa.Value, ws *writeSet) {
	pt, ok := a.Type().Underlying().(*types.Pointer)
	if !ok {
		ws.all = true
		return
	}
	var loc *Loc
	switch x := a.(type) {
	case *ssa.FieldAddr:
		loc = e.staticLoc(x)
	case *ssa.IndexAddr:
		loc = e.staticLoc(x)
	case *ssa.Global:
		loc = &Loc{kind: locGlobal, root: "G$" + e.globalName(x), typ: pt.Elem()}
	case *ssa.Alloc:
		loc = &Loc{kind: locField, root: e.fieldRoot(pt.Elem()), typ: pt.Elem()}
	default:
		// pointer parameter / loaded pointer: object of the pointee type
		loc = &Loc{kind: locField, root: e.fieldRoot(pt.Elem()), typ: pt.Elem()}
	}
	if loc == nil {
		ws.all = true
		return
	}
	for _, leaf := range leafLocs(loc) {
		s := sortOf(leaf.typ)
		switch leaf.kind {
		case locField:
			ws.heaps[leaf.heapName()] = arrSort(s)
		case locElem:
			ws.heaps[leaf.heapName()] = arr2Sort(s)
		case locGlobal:
			ws.heaps[leaf.heapName()] = s
		}
	}
}

// staticLoc computes the heap root/path of an address expression syntactically.
func (e *Engine) staticLoc(v ssa.Value) *Loc {
	switch x := v.(type) {
	case *ssa.FieldAddr:
		pt := x.X.Type().Underlying().(*types.Pointer)
		st := structOf(pt.Elem())
		f := st.Field(x.Field)
		var base *Loc
		switch bx := x.X.(type) {
		case *ssa.FieldAddr, *ssa.IndexAddr:
			base = e.staticLoc(x.X)
		case *ssa.Global:
			base = &Loc{kind: locGlobal, root: "G$" + e.globalName(bx), typ: pt.Elem()}
		}
		if base == nil {
			base = &Loc{kind: locField, root: e.fieldRoot(pt.Elem()), typ: pt.Elem()}
		}
		return base.sub(f.Name(), f.Type())
	case *ssa.IndexAddr:
		switch xt := x.X.Type().Underlying().(type) {
		case *types.Slice:
			return &Loc{kind: locElem, root: e.elemRoot(xt.Elem()), typ: xt.Elem()}
		case *types.Pointer:
			arr := xt.Elem().Underlying().(*types.Array)
			return &Loc{kind: locElem, root: e.elemRoot(arr.Elem()), typ: arr.Elem()}
		}
	}
	return nil
}

func (e *Engine) allocLeaves(elem types.Type, ws *writeSet) {
	ws.allocs = true
	if arr, ok := elem.Underlying().(*types.Array); ok {
		l := &Loc{kind: locElem, root: e.elemRoot(arr.Elem()), typ: arr.Elem()}
		for _, leaf := range leafLocs(l) {
			ws.heaps[leaf.heapName()] = arr2Sort(sortOf(leaf.typ))
		}
		return
	}
	l := &Loc{kind: locField, root: e.fieldRoot(elem), typ: elem}
	for _, leaf := range leafLocs(l) {
		ws.heaps[leaf.heapName()] = arrSort(sortOf(leaf.typ))
	}
}

func (e *Engine) elemLeavesWS(elem types.Type, ws *writeSet) {
	l := &Loc{kind: locElem, root: e.elemRoot(elem), typ: elem}
	for _, leaf := range leafLocs(l) {
		ws.heaps[leaf.heapName()] = arr2Sort(sortOf(leaf.typ))
	}
}

func (e *Engine) mapLeavesWS(t types.Type, ws *writeSet, iter bool) {
	mt := t.Underlying().(*types.Map)
	name := e.typeName(mt)
	ks := sortOf(mt.Key())
	if ks == "" {
		ks = sInt
	}
	if iter {
		ws.heaps["RV$"+name] = arrSort("(Array " + ks + " Bool)")
		return
	}
	ws.heaps["MD$"+name] = arrSort("(Array " + ks + " Bool)")
	ws.heaps["ML$"+name] = arrSort(sInt)
	if vs := sortOf(mt.Elem()); vs != "" {
		ws.heaps["MV$"+name] = arrSort("(Array " + ks + " " + vs + ")")
	}
}

func (e *Engine) scanBlock(fr *Frame, b *ssa.BasicBlock, ws *writeSet) {
	for _, in := range b.Instrs {
		switch i := in.(type) {
		case *ssa.Store:
			e.addrLeaves(i.Addr, ws)
		case *ssa.Alloc:
			e.allocLeaves(i.Type().(*types.Pointer).Elem(), ws)
		case *ssa.MakeSlice:
			ws.allocs = true
			e.elemLeavesWS(i.Type().Underlying().(*types.Slice).Elem(), ws)
		case *ssa.MakeMap:
			ws.allocs = true
			e.mapLeavesWS(i.Type(), ws, false)
		case *ssa.MakeChan, *ssa.MakeInterface, *ssa.Convert:
			ws.allocs = true
		case *ssa.MapUpdate:
			e.mapLeavesWS(i.Map.Type(), ws, false)
		case *ssa.Range:
			if _, ok := i.X.Type().Underlying().(*types.Map); ok {
				ws.allocs = true
				e.mapLeavesWS(i.X.Type(), ws, true)
			}
		case *ssa.Next:
			if !i.IsString {
				e.mapLeavesWS(i.Iter.(*ssa.Range).X.Type(), ws, true)
			}
		case *ssa.Defer:
			e.scanCall(fr, i.Common(), ws)
		case *ssa.Go:
			// effects of the spawned goroutine are not sequenced
		case *ssa.Call:
			e.scanCall(fr, i.Common(), ws)
		}
	}
}

func (e *Engine) scanCall(fr *Frame, c *ssa.CallCommon, ws *writeSet) {
	if c.IsInvoke() {
		key := e.typeName(c.Value.Type()) + "." + c.Method.Name()
		if ct := e.cf.Contracts[key]; ct != nil {
			e.contractWS(ct, nil, ws)
			return
		}
		if e.pureIfaceMethods[key] {
			return
		}
		ws.all = true
		return
	}
	switch f := c.Value.(type) {
	case *ssa.Builtin:
		switch f.Name() {
		case "append":
			ws.allocs = true
			e.elemLeavesWS(c.Args[0].Type().Underlying().(*types.Slice).Elem(), ws)
		case "copy":
			e.elemLeavesWS(c.Args[0].Type().Underlying().(*types.Slice).Elem(), ws)
		case "delete":
			e.mapLeavesWS(c.Args[0].Type(), ws, false)
		case "close":
			ws.heaps["CH$closed"] = arrSort(sBool)
		}
		return
	case *ssa.Function:
		e.scanCallee(f, c, ws)
		return
	case *ssa.MakeClosure:
		e.scanCallee(f.Fn.(*ssa.Function), c, ws)
		return
	}
	ws.all = true
}

func (e *Engine) scanCallee(f *ssa.Function, c *ssa.CallCommon, ws *writeSet) {
	key := e.keyOf(f)
	if ct := e.cf.Contracts[key]; ct != nil {
		e.contractWS(ct, f, ws)
		return
	}
	if m := e.externalWS(f, c, ws); m {
		return
	}
	if len(f.Blocks) > 0 && f.Pkg == e.pkg {
		ws.merge(e.writeSetOf(f))
		return
	}
	if e.isPureExternal(f) {
		ws.allocs = true
		return
	}
	ws.all = true
}

// contractWS: heaps a contracted callee may write, from its modifies
// clauses (field names resolved syntactically) and its body's allocations.
func (e *Engine) contractWS(ct *Contract, f *ssa.Function, ws *writeSet) {
	if f != nil && len(f.Blocks) > 0 {
		// the contract is the abstraction boundary: what the body may do to
		// objects that exist already is what `modifies` says (checked when
		// the callee is verified, assumed for trusted contracts); the body
		// only tells which heaps fresh objects are initialised in
		bw := e.writeSetOf(f)
		for k, v := range bw.heaps {
			ws.heaps[k] = v
		}
		ws.allocs = ws.allocs || bw.allocs || bw.all
	}
	for _, m := range ct.Modifies {
		if m.Src == "*" {
			ws.all = true
		}
	}
	if hs, ok := ct.Attrs["writes"]; ok {
		for _, h := range strings.Fields(hs) {
			if s, ok := e.heapSorts[h]; ok {
				ws.heaps[h] = s
			}
		}
	}
	if _, ok := ct.Attrs["allocates"]; ok {
		ws.allocs = true
	}
}

// ---------------------------------------------------------------------
// external models

type extModel func(fr *Frame, site ssa.Instruction, args []*Val, res *types.Tuple) *Val

func (e *Engine) externalName(f *ssa.Function) string {
	if f.Pkg == nil {
		if recv := f.Signature.Recv(); recv != nil {
			return types.TypeString(recv.Type(), nil) + "." + f.Name()
		}
		return f.Name()
	}
	if recv := f.Signature.Recv(); recv != nil {
		t := recv.Type()
		star := ""
		if p, ok := t.(*types.Pointer); ok {
			t = p.Elem()
			star = "*"
		}
		if n, ok := t.(*types.Named); ok {
			return "(" + star + n.Obj().Pkg().Path() + "." + n.Obj().Name() + ")." + f.Name()
		}
	}
	return f.Pkg.Pkg.Path() + "." + f.Name()
}

var pureExternals = map[string]bool{
	"fmt.Errorf": true, "fmt.Sprintf": true, "errors.New": true, "fmt.Sprint": true,
	"time.Now": true, "time.Since": true, "(time.Time).Sub": true, "strings.HasPrefix": true, "strings.HasSuffix": true,
	"strconv.Itoa": true, "strconv.ParseInt": true, "strings.Split": true, "path/filepath.Join": true, "path.Join": true,
	"(time.Duration).Seconds": true, "(time.Time).UnixNano": true, "(time.Time).IsZero": true,
}

func (e *Engine) isPureExternal(f *ssa.Function) bool {
	return pureExternals[e.externalName(f)]
}

// externalWS accounts for the effects of modelled externals in write sets.
func (e *Engine) externalWS(f *ssa.Function, c *ssa.CallCommon, ws *writeSet) bool {
	switch e.externalName(f) {
	case "bytes.Compare", "bytes.Equal":
		return true
	case "fmt.Errorf", "errors.New":
		ws.allocs = true
		return true
	case "(*sync.Mutex).Lock", "(*sync.Mutex).Unlock", "(*sync.RWMutex).Lock", "(*sync.RWMutex).Unlock", "(*sync.RWMutex).RLock", "(*sync.RWMutex).RUnlock":
		if c != nil && len(c.Args) > 0 {
			if l := e.staticLoc(c.Args[0]); l != nil {
				ws.heaps["LK$"+l.heapName()] = arrSort(sBool)
			}
		}
		return true
	case "(*sync.Cond).Broadcast", "(*sync.Cond).Signal":
		ws.heaps["CV$signalled"] = arrSort(sBool)
		return true
	case "(*sync.Cond).Wait":
		// releases and re-acquires: every guarded field may change
		for h, s := range e.heapSorts {
			if e.guardedBy[h] != nil {
				ws.heaps[h] = s
			}
		}
		return true
	case "sync/atomic.AddUint64", "sync/atomic.AddInt64", "sync/atomic.StoreUint64", "sync/atomic.AddUint32":
		// writes the pointed-to counter
		if c != nil && len(c.Args) > 0 {
			e.addrLeaves(c.Args[0], ws)
		}
		return true
	case "sync/atomic.LoadUint64", "sync/atomic.LoadInt64":
		return true
	}
	return false
}

func (e *Engine) externalModel(f *ssa.Function) extModel {
	switch e.externalName(f) {
	case "fmt.Errorf", "errors.New":
		return func(fr *Frame, site ssa.Instruction, args []*Val, res *types.Tuple) *Val {
			r := fr.newRef("errval")
			tag := fr.vc.fresh("errtag", sInt)
			fr.vc.fact(app("<", "0", tag))
			return &Val{t: mkIfc(tag, r), sort: sIfc, typ: res.At(0).Type()}
		}
	case "bytes.Compare":
		return func(fr *Frame, site ssa.Instruction, args []*Val, res *types.Tuple) *Val {
			a, b := fr.rankTerm(args[0].t), fr.rankTerm(args[1].t)
			c := fr.vc.fresh("cmp", sInt)
			fr.vc.fact(eq(c, ite(app("<", a, b), "(- 1)", ite(eq(a, b), "0", "1"))))
			fr.vc.assumed["bytes.Compare modelled through an order-embedding rank of byte strings"] = true
			return &Val{t: c, sort: sInt, typ: tInt}
		}
	case "bytes.Equal":
		return func(fr *Frame, site ssa.Instruction, args []*Val, res *types.Tuple) *Val {
			a, b := fr.rankTerm(args[0].t), fr.rankTerm(args[1].t)
			fr.vc.assumed["bytes.Equal modelled through an order-embedding rank of byte strings"] = true
			return boolVal(eq(a, b))
		}
	case "sync/atomic.AddUint64", "sync/atomic.AddInt64", "sync/atomic.StoreUint64", "sync/atomic.AddUint32":
		return func(fr *Frame, site ssa.Instruction, args []*Val, res *types.Tuple) *Val {
			if args[0].loc != nil {
				for _, leaf := range leafLocs(args[0].loc) {
					name := fr.vc.registerHeap(leaf)
					h := fr.vc.heapGet(fr.st, name)
					nv := fr.havocVal(leaf.typ, "atomic")
					if leaf.kind == locField {
						fr.vc.heapSet(fr.st, name, sto(h, leaf.ref, nv.t))
					} else {
						fr.vc.heapHavoc(fr.st, name)
					}
				}
			}
			fr.vc.assumed["sync/atomic counters are opaque (values never constrained)"] = true
			return resultVal(fr, res, "atomic")
		}
	case "sync/atomic.LoadUint64", "sync/atomic.LoadInt64":
		return func(fr *Frame, site ssa.Instruction, args []*Val, res *types.Tuple) *Val {
			return resultVal(fr, res, "atomicload")
		}
	case "(*sync.Cond).Wait":
		return func(fr *Frame, site ssa.Instruction, args []*Val, res *types.Tuple) *Val {
			fr.eng.condWait(fr)
			return nil
		}
	case "(*sync.Cond).Broadcast", "(*sync.Cond).Signal":
		return func(fr *Frame, site ssa.Instruction, args []*Val, res *types.Tuple) *Val {
			fr.eng.condSignal(fr, args[0])
			return nil
		}
	case "(*sync.Mutex).Lock", "(*sync.RWMutex).Lock", "(*sync.RWMutex).RLock":
		return func(fr *Frame, site ssa.Instruction, args []*Val, res *types.Tuple) *Val {
			fr.eng.lockOp(fr, args[0], true)
			return nil
		}
	case "(*sync.Mutex).Unlock", "(*sync.RWMutex).Unlock", "(*sync.RWMutex).RUnlock":
		return func(fr *Frame, site ssa.Instruction, args []*Val, res *types.Tuple) *Val {
			fr.eng.lockOp(fr, args[0], false)
			return nil
		}
	}
	return nil
}

// ---------------------------------------------------------------------
// listing helpers

func (e *Engine) contractedKeysForProp(prop string) []string {
	var out []string
	for _, k := range e.cf.Order {
		c := e.cf.Contracts[k]
		for _, p := range c.Props {
			if p == prop || prop == "" {
				out = append(out, k)
				break
			}
		}
	}
	sort.Strings(out)
	return out
}

// immutabilityObligations: every store to a field declared immutable must
// target an object allocated in the same function (construction).  One
// static obligation per declared field.
func (e *Engine) immutabilityObligations() *VC {
	vc := newVC(e, "immutable-fields")
	bad := map[string][]string{}
	var scan func(f *ssa.Function)
	scan = func(f *ssa.Function) {
		for _, b := range f.Blocks {
			for _, in := range b.Instrs {
				st, ok := in.(*ssa.Store)
				if !ok {
					continue
				}
				l := e.staticLoc(st.Addr)
				if l == nil {
					continue
				}
				// root object of the address
				var root ssa.Value = st.Addr
				for {
					if fa, ok := root.(*ssa.FieldAddr); ok {
						root = fa.X
						continue
					}
					break
				}
				_, fresh := root.(*ssa.Alloc)
				if _, isGlobal := root.(*ssa.Global); isGlobal {
					continue // fields of a package-level struct variable live in their own heap
				}
				for _, leaf := range leafLocs(l) {
					if e.immutable[leaf.heapName()] && !fresh {
						bad[leaf.heapName()] = append(bad[leaf.heapName()], fmt.Sprintf("%s (%s)", e.keyOf(f), e.fset.Position(st.Pos())))
					}
				}
			}
		}
		for _, a := range f.AnonFuncs {
			scan(a)
		}
	}
	seen := map[*ssa.Function]bool{}
	for _, f := range e.fnByKey {
		if f.Pkg == e.pkg && !seen[f] && f.Parent() == nil {
			seen[f] = true
			scan(f)
		}
	}
	for _, h := range sortedKeys(e.immutable) {
		o := &Obl{Name: "only-written-at-construction#" + strings.TrimPrefix(h, "F$"), Kind: "immutable", Guard: "true", Formula: "true", Func: "immutable-fields"}
		if len(bad[h]) > 0 {
			o.Formula = "false"
			o.Static = "fail:field " + h + " is declared immutable but is stored to outside construction in " + strings.Join(bad[h], ", ")
		} else {
			o.Static = "ok:no store outside construction"
		}
		vc.obls = append(vc.obls, o)
	}
	return vc
}

// recursiveWith: callee (by contract key) can reach caller again through
// static calls, i.e. they are in the same recursion cycle.
func (e *Engine) recursiveWith(caller, callee string) bool {
	if caller == callee {
		return true
	}
	start := e.fnByKey[callee]
	target := e.fnByKey[caller]
	if start == nil || target == nil {
		return false
	}
	seen := map[*ssa.Function]bool{}
	var dfs func(f *ssa.Function, depth int) bool
	dfs = func(f *ssa.Function, depth int) bool {
		if f == target {
			return true
		}
		if seen[f] || depth > 6 || f.Pkg != e.pkg {
			return false
		}
		seen[f] = true
		for _, b := range f.Blocks {
			for _, in := range b.Instrs {
				if c, ok := in.(ssa.CallInstruction); ok {
					if sc := c.Common().StaticCallee(); sc != nil && dfs(sc, depth+1) {
						return true
					}
				}
			}
		}
		return false
	}
	return dfs(start, 0)
}
