package main

import (
	"go/token"
	"fmt"
	"go/types"
	"strings"

	"golang.org/x/tools/go/ssa"
)

const maxInlineDepth = 6

func (fr *Frame) doCall(site ssa.Instruction, c *ssa.CallCommon) *Val {
	var args []*Val
	for _, a := range c.Args {
		args = append(args, fr.value(a))
	}
	if c.IsInvoke() {
		recv := fr.value(c.Value)
		return fr.invoke(site, c, recv, args)
	}
	switch f := c.Value.(type) {
	case *ssa.Builtin:
		return fr.builtin(site, f, c, args)
	case *ssa.Function:
		return fr.callFunc(site, f, args, nil, c.Signature().Results())
	case *ssa.MakeClosure:
		fv := fr.value(f)
		return fr.callFunc(site, f.Fn.(*ssa.Function), args, fv, c.Signature().Results())
	}
	fv := fr.value(c.Value)
	if fv.fn != nil {
		return fr.callFunc(site, fv.fn, args, fv, c.Signature().Results())
	}
	// call through a function-typed struct field: contract keyed "<Struct>.<field>"
	if key := fr.eng.funcFieldKey(c.Value); key != "" {
		if ct := fr.eng.cf.Contracts[key]; ct != nil {
			return fr.applyFieldContract(ct, key, c.Signature(), args)
		}
	}
	// call through a func-typed parameter that the contract ties to the one
	// closure ever passed for it (`attr callback <param> <closure key>`): the
	// closure's contract is applied; its free variables are bound to the
	// caller's variables of the same name (stated in the contract file)
	if prm, ok := c.Value.(*ssa.Parameter); ok {
		top := fr.topFrame()
		if top == fr && top.contract != nil {
			if cb := strings.Fields(top.contract.Attrs["callback"]); len(cb) == 2 && cb[0] == prm.Name() {
				if ct := fr.eng.cf.Contracts[cb[1]]; ct != nil {
					if cfn := fr.eng.fnByKey[cb[1]]; cfn != nil {
						fr.cbFree = map[string]*Val{}
						for _, fv := range cfn.FreeVars {
							if v, ok := fr.resolveLocal(fv.Name(), nil); ok {
								fr.cbFree[fv.Name()] = v
							}
						}
						rv := fr.applyContract(ct, cfn, cb[1], args, c.Signature().Results(), nil)
						fr.cbFree = nil
						fr.vc.assumed["the callback parameter "+prm.Name()+" of "+fr.vc.fnKey+" is always the closure "+cb[1]+" (its only call site passes it)"] = true
						return rv
					}
				}
			}
		}
	}
	// call through a function value of unknown identity: a closure may have
	// captured anything, so everything is havocked
	fr.vc.abstracted("call through an unknown function value: all heaps havocked")
	for _, h := range sortedKeys(fr.vc.heapSort) {
		fr.vc.heapHavoc(fr.st, h)
	}
	return fr.unknownCall("func value "+c.Value.Name(), c.Signature().Results(), args, true)
}

// funcFieldKey: "<Struct>.<field>" if v is a load of a function-typed field.
func (e *Engine) funcFieldKey(v ssa.Value) string {
	u, ok := v.(*ssa.UnOp)
	if !ok {
		return ""
	}
	// element of a slice of funcs that was loaded from a struct field
	if ia, ok := u.X.(*ssa.IndexAddr); ok {
		if k := e.funcFieldKey(ia.X); k != "" {
			return k
		}
		return ""
	}
	fa, ok := u.X.(*ssa.FieldAddr)
	if !ok {
		if f, ok := v.(*ssa.Field); ok {
			st := structOf(f.X.Type())
			return e.typeName(f.X.Type()) + "." + st.Field(f.Field).Name()
		}
		return ""
	}
	pt := fa.X.Type().Underlying().(*types.Pointer)
	st := structOf(pt.Elem())
	return e.typeName(pt.Elem()) + "." + st.Field(fa.Field).Name()
}

// applyFieldContract applies a contract attached to a function-typed field
// (the callee is user supplied: the contract is an assumption about it,
// its requires are obligations of the caller).
func (fr *Frame) applyFieldContract(c *Contract, key string, sig *types.Signature, args []*Val) *Val {
	name := fr.ordName("call " + key)
	names := map[string]*Val{}
	for i := 0; i < sig.Params().Len() && i < len(args); i++ {
		if n := sig.Params().At(i).Name(); n != "" {
			names[n] = args[i]
		}
		names[fmt.Sprintf("a%d", i)] = args[i]
	}
	pre := fr.st.clone()
	for i, rq := range c.Requires {
		t, err := fr.evalClause(rq, &evalCtx{fr: fr, st: fr.st, old: fr.st, names: names, callee: key})
		if err != nil {
			fr.stale(name+"/"+clauseName("requires", i, rq), err)
			continue
		}
		fr.oblige("call-requires", name+"/"+clauseName("requires", i, rq), t)
	}
	rv := fr.unknownCall("callback "+key, sig.Results(), args, true)
	rn := map[string]*Val{}
	for k, v := range names {
		rn[k] = v
	}
	bindResults(rn, rv, sig.Results())
	for _, en := range c.Ensures {
		t, err := fr.evalClause(en, &evalCtx{fr: fr, st: fr.st, old: pre, names: rn, callee: key, assuming: true})
		if err != nil {
			fr.stale(name+"/ensures", err)
			continue
		}
		fr.assume(t)
	}
	fr.vc.assumed["assumed contract of user-supplied callback "+key] = true
	return rv
}

func resultVal(fr *Frame, res *types.Tuple, hint string) *Val {
	switch res.Len() {
	case 0:
		return nil
	case 1:
		return fr.havocVal(res.At(0).Type(), hint)
	}
	return fr.havocVal(res, hint)
}

// unknownCall: a call into code without contract or body (external package,
// user callback, interface method of unknown dynamic type).  Results are
// unconstrained.  If impure, everything reachable from the arguments is
// havocked: elements of slice arguments, fields (one level, plus the
// elements of their slices) of objects passed by pointer, contents of map
// arguments.  Memory the callee was not handed stays unchanged: external
// code holds no references into moss-internal objects (stated assumption).
func (fr *Frame) unknownCall(what string, res *types.Tuple, args []*Val, impure bool) *Val {
	if impure {
		fr.vc.abstracted("call to " + what + ": results unconstrained, memory reachable from the arguments havocked")
		fr.vc.assumed["code without a contract (external packages, user callbacks) only modifies memory reachable from its arguments"] = true
		// (the watermark first: what the callee stores may be objects it allocated)
		a := fr.vc.fresh("alloc", sInt)
		fr.vc.fact(app("<=", fr.st.alloc, a))
		fr.st.alloc = a
		for _, a := range args {
			fr.havocReachable(a, 1)
		}
	} else {
		fr.vc.abstracted("call to " + what + ": results unconstrained")
	}
	return resultVal(fr, res, "res_"+sanitize(what))
}

func (fr *Frame) havocReachable(a *Val, depth int) {
	if a == nil || a.typ == nil {
		return
	}
	vc := fr.vc
	if a.fields != nil {
		for _, f := range a.order {
			fr.havocReachable(a.fields[f], depth)
		}
		return
	}
	if a.boxed != nil {
		fr.havocReachable(a.boxed, depth)
		return
	}
	if a.loc != nil && a.t == "" {
		// interior pointer: the pointed-to location
		for _, leaf := range leafLocs(a.loc) {
			name := vc.registerHeap(leaf)
			h := vc.heapGet(fr.st, name)
			nv := fr.vc.fresh("hv", sortOf(leaf.typ))
			switch leaf.kind {
			case locField:
				vc.heapSet(fr.st, name, sto(h, leaf.ref, nv))
			case locElem:
				vc.heapSet(fr.st, name, sto(h, leaf.ref, sto(sel(h, leaf.ref), leaf.idx, nv)))
			case locGlobal:
				vc.heapHavoc(fr.st, name)
			}
		}
		return
	}
	switch t := a.typ.Underlying().(type) {
	case *types.Slice:
		for _, leaf := range fr.elemLeaves(t.Elem()) {
			name := vc.registerHeap(leaf)
			h := vc.heapGet(fr.st, name)
			nv := fr.vc.fresh("hv_arr", arrSort(sortOf(leaf.typ)))
			vc.heapSet(fr.st, name, ite(eq(sArr(a.t), "0"), h, sto(h, sArr(a.t), nv)))
		}
	case *types.Pointer:
		if structOf(t.Elem()) == nil || isSyncType(t.Elem()) {
			return
		}
		base := &Loc{kind: locField, ref: a.t, root: fr.eng.fieldRoot(t.Elem()), typ: t.Elem()}
		for _, leaf := range leafLocs(base) {
			if sortOf(leaf.typ) == "" {
				continue
			}
			name := vc.registerHeap(leaf)
			if fr.eng.immutable[name] {
				continue
			}
			h := vc.heapGet(fr.st, name)
			var old *Val
			if depth > 0 {
				if _, isSlice := leaf.typ.Underlying().(*types.Slice); isSlice {
					old = &Val{t: sel(h, a.t), sort: sSlc, typ: leaf.typ}
				}
			}
			nv := fr.vc.fresh("hv", sortOf(leaf.typ))
			vc.heapSet(fr.st, name, ite(eq(a.t, "0"), h, sto(h, a.t, nv)))
			if old != nil {
				fr.havocReachable(old, depth-1)
			}
		}
	case *types.Map:
		mh := fr.mapHeaps(a.typ)
		for _, n := range []string{mh.dom, mh.val, mh.ln} {
			if _, ok := vc.heapSort[n]; !ok {
				continue
			}
			h := vc.heapGet(fr.st, n)
			inner := vc.heapSort[n][len("(Array Int ") : len(vc.heapSort[n])-1]
			nv := fr.vc.fresh("hv_map", inner)
			vc.heapSet(fr.st, n, ite(eq(a.t, "0"), h, sto(h, a.t, nv)))
		}
	}
}

func (fr *Frame) onStack(fn *ssa.Function) bool {
	for f := fr; f != nil; f = f.parent {
		if f.fn == fn {
			return true
		}
	}
	return false
}

func (fr *Frame) callFunc(site ssa.Instruction, fn *ssa.Function, args []*Val, fnv *Val, res *types.Tuple) *Val {
	key := fr.eng.keyOf(fn)
	if c := fr.eng.cf.Contracts[key]; c != nil {
		return fr.applyContract(c, fn, key, args, res, nil)
	}
	if m := fr.eng.externalModel(fn); m != nil {
		return m(fr, site, args, res)
	}
	if len(fn.Blocks) > 0 && fn.Pkg == fr.eng.pkg && fr.depth < maxInlineDepth && !fr.onStack(fn) {
		return fr.inline(fn, args, fnv)
	}
	if len(fn.Blocks) > 0 && fn.Pkg == fr.eng.pkg && fr.onStack(fn) && fr.vc.onlyKinds != nil {
		// thin contract: a recursive instance is the code already being checked; its effects are havocked
		fr.vc.abstracted("recursive call to " + key + " inside a thin contract: effects havocked, call sites covered by the outer instance")
		return fr.unknownCall("recursive "+key, res, args, true)
	}
	if len(fn.Blocks) > 0 && fn.Pkg == fr.eng.pkg && fr.onStack(fn) {
		o := fr.oblige("stale", fr.ordName("call "+key+"/needs-contract"), "false")
		o.Static = "fail:recursive call to " + key + " needs a contract"
		return resultVal(fr, res, "res_"+sanitize(key))
	}
	pure := fr.eng.isPureExternal(fn)
	return fr.unknownCall(fn.String(), res, args, !pure)
}

// inline executes the callee's SSA in a child frame.
func (fr *Frame) inline(fn *ssa.Function, args []*Val, fnv *Val) *Val {
	key := fr.eng.keyOf(fn)
	child := &Frame{eng: fr.eng, vc: fr.vc, fn: fn, key: key, vals: map[ssa.Value]*Val{}, st: fr.st, reach: fr.reach,
		depth: fr.depth + 1, entry: fr.st.clone(), params: args, parent: fr, overflow: fr.overflow,
		oblPrefix: fr.oblPrefix + fr.ordName("inl "+key) + "/"}
	child.contract = fr.eng.cf.Contracts[key+"$loops"] // loop-only contracts for inlined helpers
	if fnv != nil && fnv.clo != nil {
		child.bindings = map[ssa.Value]*Val{}
		for i, b := range fnv.clo.Bindings {
			child.bindings[fn.FreeVars[i]] = fnv.frame.value(b)
		}
	}
	// the callee's own defers must not see the caller's
	savedDefers := fr.st.defers
	child.st = fr.st.clone()
	child.st.defers = nil
	child.run()
	if len(child.rets) == 0 {
		// callee never returns on this path (panics/loops forever): the rest is unreachable
		fr.reach = "false"
		return resultVal(fr, fn.Signature.Results(), "noret")
	}
	var conds []string
	var sts []*State
	var vals []*Val
	for _, r := range child.rets {
		conds = append(conds, r.reach)
		sts = append(sts, r.st)
		vals = append(vals, r.val)
	}
	rc := fr.vc.fresh("after_"+fn.Name(), sBool)
	fr.vc.fact(eq(rc, or(conds...)))
	fr.reach = rc
	fr.st = fr.vc.mergeStates(conds, sts)
	fr.st.defers = savedDefers
	if vals[0] == nil {
		return nil
	}
	return fr.mergeVals(conds, vals, "ret_"+fn.Name())
}

// applyContract: assert requires, havoc modifies, assume ensures.
func (fr *Frame) applyContract(c *Contract, fn *ssa.Function, key string, args []*Val, res *types.Tuple, recvIfc *Val) *Val {
	name := fr.ordName("call " + key)
	names := map[string]*Val{}
	var sig *types.Signature
	if fn != nil {
		sig = fn.Signature
		for i, p := range fn.Params {
			if i < len(args) {
				names[p.Name()] = args[i]
			}
		}
	}
	if recvIfc != nil {
		names["self"] = recvIfc
	}
	for k, v := range fr.cbFree {
		if _, has := names[k]; !has {
			names[k] = v
		}
	}
	if im := fr.eng.ifaceMethod(key); im != nil {
		sig = im.Type().(*types.Signature)
		for i := 0; i < sig.Params().Len() && i < len(args); i++ {
			names[sig.Params().At(i).Name()] = args[i]
		}
	} else if recvIfc != nil && fr.invokeMethod != nil {
		sig = fr.invokeMethod.Type().(*types.Signature)
		for i := 0; i < sig.Params().Len() && i < len(args); i++ {
			names[sig.Params().At(i).Name()] = args[i]
		}
	}
	for _, g := range c.Ghosts {
		gt := fr.eng.parseType(g.Type)
		cands := fr.ghostCandidates(gt, args)
		if len(cands) != 1 {
			o := fr.oblige("stale", name+"/ghost "+g.Name, "false")
			o.Static = fmt.Sprintf("fail:cannot bind ghost parameter %s %s of %s: %d candidates in scope", g.Name, g.Type, key, len(cands))
			names[g.Name] = fr.havocVal(gt, "ghost_"+g.Name)
			continue
		}
		names[g.Name] = cands[0]
	}
	fr.vc.relied[key] = true
	if cv, ok := c.Attrs["callers"]; ok && strings.HasPrefix(cv, "assume-noop") && (res == nil || res.Len() == 0) {
		// the body is verified against the contract, but call sites treat the
		// call as having no effect on the modelled state (an assumption that
		// is reported: it holds for the states the callers' contracts admit)
		fr.vc.assumed["callers of "+key+" treat the call as a no-op (its preconditions are not checked there): "+strings.TrimSpace(strings.TrimPrefix(cv, "assume-noop"))] = true
		return resultVal(fr, res, "res_"+sanitize(key))
	}
	if len(fr.eng.cf.AssumedInvs) > 0 && (len(c.Modifies) > 0 || len(c.Ensures) > 0) {
		// the assumed data-structure invariants hold at every call boundary,
		// also in the state the call starts from
		fr.assumeGlobalInvariants()
	}
	pre := fr.st.clone()
	for i, rq := range c.Requires {
		t, err := fr.evalClause(rq, &evalCtx{fr: fr, st: fr.st, old: fr.st, names: names, callee: key})
		if err != nil {
			fr.stale(name+"/"+clauseName("requires", i, rq), err)
			continue
		}
		fr.oblige("call-requires", name+"/"+clauseName("requires", i, rq), t)
	}
	// termination of (mutual) recursion: the callee's measure is smaller than ours at entry
	if top := fr.topFrame(); c.Decreases != nil && top.variant0 != "" && top.contract != nil && top.contract.Decreases != nil && fr.eng.recursiveWith(top.key, key) {
		t, err := fr.evalClauseInt(c.Decreases, &evalCtx{fr: fr, st: fr.st, old: fr.st, names: names, callee: key})
		if err != nil {
			fr.stale(name+"/decreases", err)
		} else {
			fr.oblige("decreases", name+"/decreases", and(app("<=", "0", top.variant0), app("<", t, top.variant0)))
		}
	}
	// frame
	fr.havocForCall(c, fn, key, names, pre)
	if _, ok := c.Attrs["havoc-args"]; ok {
		// external function that writes through its arguments (e.g. a pointer
		// boxed in an interface): everything reachable from them is unknown
		a := fr.vc.fresh("alloc", sInt)
		fr.vc.fact(app("<=", fr.st.alloc, a))
		fr.st.alloc = a
		for _, a := range args {
			fr.havocReachable(a, 1)
		}
	}
	// results
	var rv *Val
	if res == nil && sig != nil {
		res = sig.Results()
	}
	rv = resultVal(fr, res, "res_"+sanitize(key))
	rnames := map[string]*Val{}
	for k, v := range names {
		rnames[k] = v
	}
	bindResults(rnames, rv, res)
	for _, en := range c.Ensures {
		t, err := fr.evalClause(en, &evalCtx{fr: fr, st: fr.st, old: pre, names: rnames, callee: key, assuming: true})
		if err != nil {
			if strings.Contains(err.Error(), "atAcquire()") || strings.Contains(err.Error(), "local()") {
				// the clause speaks about the callee's own critical section:
				// not usable by the caller (dropping an assumption is sound)
				fr.vc.abstracted("postcondition of " + key + " over atAcquire()/local() not used at call sites")
				continue
			}
			fr.stale(name+"/ensures", err)
			continue
		}
		fr.assume(t)
	}
	if c.Trusted {
		fr.vc.assumed["trusted contract: "+key+" ("+c.Attrs["trusted"]+")"] = true
	}
	if len(c.Modifies) > 0 || (fn != nil && len(fn.Blocks) > 0 && len(fr.eng.writeSetOf(fn).heaps) > 0) {
		fr.assumeGlobalInvariants()
	}
	return rv
}

func bindResults(names map[string]*Val, rv *Val, res *types.Tuple) {
	if rv == nil || res == nil {
		return
	}
	if res.Len() == 1 {
		names["result"] = rv
		names["r0"] = rv
		if n := res.At(0).Name(); n != "" && n != "_" {
			names[n] = rv
		}
		return
	}
	for i := 0; i < res.Len(); i++ {
		names[fmt.Sprintf("r%d", i)] = rv.tuple[i]
		if n := res.At(i).Name(); n != "" && n != "_" {
			names[n] = rv.tuple[i]
		}
	}
}

// havocForCall havocs what the callee may modify: the declared modifies
// locations, and (fresh objects only) the heaps its body allocates into.
func (fr *Frame) havocForCall(c *Contract, fn *ssa.Function, key string, names map[string]*Val, pre *State) {
	vc := fr.vc
	declared := map[string][]string{} // heap -> refs whose slot may change
	wholeHeap := map[string]bool{}
	for _, m := range c.Modifies {
		if m.Src == "*" {
			for _, h := range sortedKeys(vc.heapSort) {
				wholeHeap[h] = true
			}
			continue
		}
		if m.Src == "nothing" {
			continue
		}
		locs, err := fr.evalModifies(m, &evalCtx{fr: fr, st: pre, old: pre, names: names, callee: key})
		if err != nil {
			fr.stale("modifies "+key, err)
			continue
		}
		for _, l := range locs {
			for _, leaf := range leafLocs(l) {
				n := vc.registerHeap(leaf)
				if leaf.ref == "*" {
					wholeHeap[n] = true
				} else if leaf.kind == locElem && leaf.idx == "*" {
					declared[n] = append(declared[n], leaf.ref)
				} else if leaf.kind == locGlobal {
					wholeHeap[n] = true
				} else {
					declared[n] = append(declared[n], leaf.ref)
				}
			}
		}
	}
	var ws *writeSet
	if fn != nil && len(fn.Blocks) > 0 {
		bw := fr.eng.writeSetOf(fn)
		ws = &writeSet{heaps: bw.heaps, allocs: bw.allocs || bw.all}
	} else {
		ws = &writeSet{heaps: map[string]string{}}
		if a, ok := c.Attrs["allocates"]; ok {
			ws.allocs = true
			for _, h := range strings.Fields(a) {
				if s, ok := vc.heapSort[h]; ok {
					ws.heaps[h] = s
				}
			}
		}
	}
	if a, ok := c.Attrs["allocates"]; ok && fn != nil {
		_ = a
		ws.allocs = true
	}
	allocBefore := fr.st.alloc
	if ws.allocs || ws.all {
		a := vc.fresh("alloc", sInt)
		vc.fact(app("<=", fr.st.alloc, a))
		fr.st.alloc = a
	}
	touched := map[string]bool{}
	for h := range declared {
		touched[h] = true
	}
	for h := range wholeHeap {
		touched[h] = true
	}
	if ws.all && len(c.Modifies) == 0 {
		// body calls unknown code but the contract declares no effects: the
		// contract is what the caller may rely on (checked when the callee is verified)
	}
	for h, s := range ws.heaps {
		if _, ok := vc.heapSort[h]; !ok {
			vc.heapSort[h] = s
		}
		touched[h] = true
	}
	ev := &allocEvent{bound: allocBefore, trans: map[string][2]string{}, modified: map[string]bool{}}
	defer func() {
		if len(ev.trans) > 0 {
			ev.nfacts = len(vc.facts)
			ev.cur = map[string]string{}
			for h, t := range fr.st.heaps {
				ev.cur[h] = t
			}
			vc.allocEvents = append(vc.allocEvents, ev)
		}
	}()
	for _, h := range sortedKeys(touched) {
		old := vc.heapGet(fr.st, h)
		if wholeHeap[h] {
			vc.heapHavoc(fr.st, h)
			ev.modified[h] = true
			continue
		}
		nw := vc.heapHavoc(fr.st, h)
		if strings.HasPrefix(h, "G$") {
			if _, isDecl := declared[h]; !isDecl {
				// globals are only changed when declared
				vc.fact(eq(nw, old))
			} else {
				ev.modified[h] = true
			}
			continue
		}
		if len(declared[h]) == 0 {
			ev.trans[h] = [2]string{old, nw}
		} else {
			ev.modified[h] = true
		}
		// objects existing before the call and not declared keep their slot
		var excl []string
		for _, r := range declared[h] {
			excl = append(excl, app("distinct", "r!", r))
		}
		cond := and(append([]string{app("<=", "r!", allocBefore)}, excl...)...)
		vc.fact(fmt.Sprintf("(forall ((r! Int)) (! (=> %s (= (select %s r!) (select %s r!))) :pattern ((select %s r!))))", cond, nw, old, nw))
	}
}

// ---------------------------------------------------------------------
// interface method calls

func (fr *Frame) invoke(site ssa.Instruction, c *ssa.CallCommon, recv *Val, args []*Val) *Val {
	it := c.Value.Type()
	iname := fr.eng.typeName(it)
	key := iname + "." + c.Method.Name()
	fr.oblige("P0", fr.ordName("P0/nil-iface"), app("distinct", iTag(fr.scalar(recv)), "0"))
	// dynamic type known on this path: use the implementation
	if tag := iTag(fr.scalar(recv)); isLiteral(tag) {
		var id int
		fmt.Sscanf(tag, "%d", &id)
		if ct := fr.eng.tagType[id]; ct != nil {
			if f := fr.eng.prog.LookupMethod(ct, c.Method.Pkg(), c.Method.Name()); f != nil {
				rv := &Val{t: iVal(fr.scalar(recv)), sort: sInt, typ: ct}
				return fr.callFunc(site, f, append([]*Val{rv}, args...), nil, c.Signature().Results())
			}
		}
	}
	if ct := fr.eng.cf.Contracts[key]; ct != nil {
		if d, ok := ct.Attrs["delegate"]; ok {
			// interface contract delegating to the package's own implementation
			dt := fr.eng.parseType(d)
			if dt == nil {
				fr.stale("delegate "+key, fmt.Errorf("unknown type %s", d))
			} else {
				fr.oblige("call-requires", fr.ordName("call "+key)+"/dynamic-type", eq(iTag(fr.scalar(recv)), intLit(int64(fr.eng.typeTag(dt)))))
				fr.vc.assumed["interface "+iname+" is implemented by "+d+" (user-supplied implementations are outside the contracts)"] = true
				if f := fr.eng.prog.LookupMethod(dt, c.Method.Pkg(), c.Method.Name()); f != nil {
					rv := &Val{t: iVal(fr.scalar(recv)), sort: sInt, typ: dt}
					return fr.callFunc(site, f, append([]*Val{rv}, args...), nil, c.Signature().Results())
				}
			}
		}
		fr.invokeMethod = c.Method
		defer func() { fr.invokeMethod = nil }()
		return fr.applyContract(ct, nil, key, args, c.Signature().Results(), recv)
	}
	pure := fr.eng.pureIfaceMethods[key]
	return fr.unknownCall("interface method "+key, c.Signature().Results(), args, !pure)
}

// ---------------------------------------------------------------------
// builtins

func (fr *Frame) builtin(site ssa.Instruction, b *ssa.Builtin, c *ssa.CallCommon, args []*Val) *Val {
	switch b.Name() {
	case "len", "cap":
		x := args[0]
		switch c.Args[0].Type().Underlying().(type) {
		case *types.Slice:
			if b.Name() == "len" {
				return &Val{t: sLen(x.t), sort: sInt, typ: types.Typ[types.Int]}
			}
			return &Val{t: sCap(x.t), sort: sInt, typ: types.Typ[types.Int]}
		case *types.Map:
			return fr.mapLen(c.Args[0].Type(), x)
		case *types.Basic: // string
			v := &Val{t: app("strlen", x.t), sort: sInt, typ: types.Typ[types.Int]}
			fr.vc.fact(app("<=", "0", v.t))
			return v
		case *types.Chan:
			fr.vc.abstracted("len of channel")
			v := fr.havocVal(types.Typ[types.Int], "chanlen")
			fr.vc.fact(app("<=", "0", v.t))
			return v
		}
	case "append":
		return fr.doAppend(c, args)
	case "copy":
		return fr.doCopy(c, args)
	case "close":
		fr.doClose(args[0])
		return nil
	case "delete":
		fr.mapDelete(c.Args[0].Type(), args[0], args[1])
		return nil
	case "panic":
		fr.oblige("P0", fr.ordName("P0/panic"), "false")
		return nil
	case "print", "println", "recover":
		return resultVal(fr, c.Signature().Results(), "builtin")
	case "min", "max":
		if len(args) == 2 && args[0].sort == sInt {
			op := "<="
			if b.Name() == "max" {
				op = ">="
			}
			return &Val{t: ite(app(op, args[0].t, args[1].t), args[0].t, args[1].t), sort: sInt, typ: c.Signature().Results().At(0).Type()}
		}
	}
	fr.vc.abstracted("builtin " + b.Name())
	return resultVal(fr, c.Signature().Results(), "builtin_"+b.Name())
}

// elemHeaps returns the leaf element heaps (name, leaf loc template) of a slice type.
func (fr *Frame) elemLeaves(elem types.Type) []*Loc {
	l := &Loc{kind: locElem, ref: "?", idx: "?", root: fr.eng.elemRoot(elem), typ: elem}
	return leafLocs(l)
}

func (fr *Frame) doAppend(c *ssa.CallCommon, args []*Val) *Val {
	vc := fr.vc
	st := c.Args[0].Type().Underlying().(*types.Slice)
	s := fr.scalar(args[0])
	if b, ok := c.Args[1].Type().Underlying().(*types.Basic); ok && b.Info()&types.IsString != 0 {
		vc.abstracted("append of string bytes")
		return fr.appendHavoc(st, s, fr.vc.fresh("n", sInt))
	}
	t := fr.scalar(args[1])
	n := sLen(t)
	// constant small n: exact element-wise stores
	var nConst int64 = -1
	if _, err := fmt.Sscanf(n, "%d", &nConst); err != nil || fmt.Sprint(nConst) != n {
		nConst = -1
	}
	fits := app("<=", app("+", sLen(s), n), sCap(s))
	fitsC := vc.fresh("append_fits", sBool)
	vc.fact(eq(fitsC, fits))
	newArr := fr.newRef("append_arr")
	newCap := vc.fresh("append_cap", sInt)
	vc.fact(and(app(">=", newCap, app("+", sLen(s), n)), app("<=", newCap, "4611686018427387904")))
	resT := ite(fitsC,
		mkSlc(sArr(s), sOff(s), app("+", sLen(s), n), sCap(s)),
		mkSlc(newArr, "0", app("+", sLen(s), n), newCap))
	res := vc.fresh("append", sSlc)
	vc.fact(eq(res, resT))
	// nil result stays nil when nothing is appended to nil: Go returns s itself if n == 0
	// (modelled: if n == 0 the "fits" case applies since len <= cap)
	for _, leaf := range fr.elemLeaves(st.Elem()) {
		name := vc.registerHeap(leaf)
		h := vc.heapGet(fr.st, name)
		srcArr := sel(h, sArr(t))
		dstOld := sel(h, sArr(s))
		if nConst >= 0 && nConst <= 4 {
			// in place
			inPlace := dstOld
			grown := "" // fresh array content
			cpy := vc.fresh("append_copy", arrSort(sortOf(leaf.typ)))
			// cpy agrees with the old content on [0,len)
			vc.fact(fmt.Sprintf("(forall ((j! Int)) (! (=> (and (<= 0 j!) (< j! %s)) (= (select %s j!) (select %s (+ %s j!)))) :pattern ((select %s j!))))", sLen(s), cpy, dstOld, sOff(s), cpy))
			grown = cpy
			for j := int64(0); j < nConst; j++ {
				ev := sel(srcArr, app("+", sOff(t), intLit(j)))
				inPlace = sto(inPlace, app("+", sOff(s), sLen(s), intLit(j)), ev)
				grown = sto(grown, app("+", sLen(s), intLit(j)), ev)
			}
			vc.heapSet(fr.st, name, ite(fitsC, sto(h, sArr(s), inPlace), sto(h, newArr, grown)))
			continue
		}
		// general case: quantified description of the destination content
		dst := vc.fresh("append_dst", arrSort(sortOf(leaf.typ)))
		base := vc.fresh("append_base", sInt)
		vc.fact(eq(base, ite(fitsC, sOff(s), "0")))
		// appended window, old prefix, and (in place) everything else: absolute indices, one simple trigger
		vc.fact(fmt.Sprintf("(forall ((k! Int)) (! (=> (and (<= (+ %s %s) k!) (< k! (+ %s %s %s))) (= (select %s k!) (select %s (+ %s (- k! %s %s))))) :pattern ((select %s k!))))",
			base, sLen(s), base, sLen(s), n, dst, srcArr, sOff(t), base, sLen(s), dst))
		vc.fact(fmt.Sprintf("(forall ((k! Int)) (! (=> (and (<= %s k!) (< k! (+ %s %s))) (= (select %s k!) (select %s (+ %s (- k! %s))))) :pattern ((select %s k!))))",
			base, base, sLen(s), dst, dstOld, sOff(s), base, dst))
		vc.fact(implies(fitsC, fmt.Sprintf("(forall ((k! Int)) (! (=> (or (< k! (+ %s %s)) (>= k! (+ %s %s %s))) (= (select %s k!) (select %s k!))) :pattern ((select %s k!))))",
			sOff(s), sLen(s), sOff(s), sLen(s), n, dst, dstOld, dst)))
		if sortOf(leaf.typ) == sInt && fr.eng.isByte(leaf.typ) {
			// byte content: ranks of the old prefix and of the appended window carry over
			vc.fact(fmt.Sprintf("(forall ((o! Int) (l! Int)) (! (=> (and (<= 0 o!) (<= 0 l!) (<= (+ o! l!) %s)) (= (brank %s (+ %s o!) l!) (brank %s (+ %s o!) l!))) :pattern ((brank %s (+ %s o!) l!))))",
				sLen(s), dst, base, dstOld, sOff(s), dst, base))
			vc.fact(fmt.Sprintf("(forall ((o! Int) (l! Int)) (! (=> (and (<= 0 o!) (<= 0 l!) (<= (+ o! l!) %s)) (= (brank %s (+ %s %s o!) l!) (brank %s (+ %s o!) l!))) :pattern ((brank %s (+ %s %s o!) l!))))",
				n, dst, base, sLen(s), srcArr, sOff(t), dst, base, sLen(s)))
			// ground instances: the whole appended window and the whole old prefix
			vc.fact(eq(app("brank", dst, app("+", base, sLen(s)), n), app("brank", srcArr, sOff(t), n)))
			vc.fact(eq(app("brank", dst, base, sLen(s)), app("brank", dstOld, sOff(s), sLen(s))))
			// any range of the old prefix (absolute offsets), usable without arithmetic matching
			vc.fact(fmt.Sprintf("(forall ((o! Int) (l! Int)) (! (=> (and (<= 0 o!) (<= 0 l!) (<= (+ o! l!) %s)) (= (brank %s (+ %s o!) l!) (brank %s (+ %s o!) l!))) :pattern ((brank %s (+ %s o!) l!))))",
				sLen(s), dstOld, sOff(s), dst, base, dstOld, sOff(s)))
		}
		vc.heapSet(fr.st, name, sto(h, ite(fitsC, sArr(s), newArr), dst))
	}
	return &Val{t: res, sort: sSlc, typ: c.Args[0].Type()}
}

func (fr *Frame) appendHavoc(st *types.Slice, s, n string) *Val {
	vc := fr.vc
	vc.fact(app("<=", "0", n))
	res := fr.havocVal(st, "append")
	vc.fact(eq(sLen(res.t), app("+", sLen(s), n)))
	for _, leaf := range fr.elemLeaves(st.Elem()) {
		name := vc.registerHeap(leaf)
		vc.heapHavoc(fr.st, name)
	}
	return res
}

func (fr *Frame) doCopy(c *ssa.CallCommon, args []*Val) *Val {
	vc := fr.vc
	dt := c.Args[0].Type().Underlying().(*types.Slice)
	d := fr.scalar(args[0])
	if b, ok := c.Args[1].Type().Underlying().(*types.Basic); ok && b.Info()&types.IsString != 0 {
		vc.abstracted("copy from string")
		for _, leaf := range fr.elemLeaves(dt.Elem()) {
			vc.heapHavoc(fr.st, vc.registerHeap(leaf))
		}
		return fr.havocVal(types.Typ[types.Int], "copied")
	}
	s := fr.scalar(args[1])
	n := vc.fresh("copy_n", sInt)
	vc.fact(eq(n, ite(app("<=", sLen(d), sLen(s)), sLen(d), sLen(s))))
	for _, leaf := range fr.elemLeaves(dt.Elem()) {
		name := vc.registerHeap(leaf)
		h := vc.heapGet(fr.st, name)
		srcArr := sel(h, sArr(s))
		dstOld := sel(h, sArr(d))
		dst := vc.fresh("copy_dst", arrSort(sortOf(leaf.typ)))
		vc.fact(fmt.Sprintf("(forall ((k! Int)) (! (=> (and (<= %s k!) (< k! (+ %s %s))) (= (select %s k!) (select %s (+ %s (- k! %s))))) :pattern ((select %s k!))))",
			sOff(d), sOff(d), n, dst, srcArr, sOff(s), sOff(d), dst))
		vc.fact(fmt.Sprintf("(forall ((j! Int)) (! (=> (or (< j! %s) (>= j! (+ %s %s))) (= (select %s j!) (select %s j!))) :pattern ((select %s j!))))",
			sOff(d), sOff(d), n, dst, dstOld, dst))
		if sortOf(leaf.typ) == sInt && fr.eng.isByte(leaf.typ) {
			vc.fact(fmt.Sprintf("(forall ((o! Int) (l! Int)) (! (=> (and (<= 0 o!) (<= 0 l!) (<= (+ o! l!) %s)) (= (brank %s (+ %s o!) l!) (brank %s (+ %s o!) l!))) :pattern ((brank %s (+ %s o!) l!))))",
				n, dst, sOff(d), srcArr, sOff(s), dst, sOff(d)))
			// ranks of regions entirely outside the written window are unchanged
			vc.fact(fmt.Sprintf("(forall ((o! Int) (l! Int)) (! (=> (and (<= 0 l!) (or (<= (+ o! l!) %s) (>= o! (+ %s %s)))) (= (brank %s o! l!) (brank %s o! l!))) :pattern ((brank %s o! l!))))",
				sOff(d), sOff(d), n, dst, dstOld, dst))
			// ground instance: the whole copied window
			vc.fact(eq(app("brank", dst, sOff(d), n), app("brank", srcArr, sOff(s), n)))
		}
		vc.heapSet(fr.st, name, sto(h, sArr(d), dst))
	}
	return &Val{t: n, sort: sInt, typ: types.Typ[types.Int]}
}

// ---------------------------------------------------------------------
// defers, goroutines, channels (coarse models)

func (fr *Frame) runDefers() {
	ds := fr.st.defers
	fr.st.defers = nil
	for i := len(ds) - 1; i >= 0; i-- {
		d := ds[i]
		if d.frame != fr {
			continue
		}
		saved := fr.reach
		pre := fr.st.clone()
		g := fr.vc.fresh("defer_guard", sBool)
		fr.vc.fact(eq(g, and(fr.reach, d.guard)))
		fr.reach = g
		fr.curInstr = d.call
		cc := d.call.Common()
		if cc.IsInvoke() {
			fr.invoke(d.call, cc, d.fnv, d.args)
		} else {
			switch f := cc.Value.(type) {
			case *ssa.Builtin:
				fr.builtin(d.call, f, cc, d.args)
			case *ssa.Function:
				fr.callFunc(d.call, f, d.args, nil, cc.Signature().Results())
			default:
				if d.fnv != nil && d.fnv.fn != nil {
					fr.callFunc(d.call, d.fnv.fn, d.args, d.fnv, cc.Signature().Results())
				} else {
					fr.unknownCall("deferred func value", cc.Signature().Results(), d.args, true)
				}
			}
		}
		// merge: the deferred call only ran if its guard held
		after := fr.st
		fr.reach = saved
		fr.st = fr.vc.mergeStates([]string{g, not(g)}, []*State{after, pre})
		fr.st.defers = nil
	}
}

func (fr *Frame) doGo(g *ssa.Go) {
	// The spawned body is verified separately (if under contract).  Its
	// precondition is asserted here; its effects are not sequenced.
	cc := g.Common()
	var args []*Val
	for _, a := range cc.Args {
		args = append(args, fr.value(a))
	}
	var key string
	if f, ok := cc.Value.(*ssa.Function); ok {
		key = fr.eng.keyOf(f)
	} else if mc, ok := cc.Value.(*ssa.MakeClosure); ok {
		key = fr.eng.keyOf(mc.Fn.(*ssa.Function))
	}
	if c := fr.eng.cf.Contracts[key]; c != nil {
		names := map[string]*Val{}
		if f := fr.eng.fnByKey[key]; f != nil {
			for i, p := range f.Params {
				if i < len(args) {
					names[p.Name()] = args[i]
				}
			}
		}
		for i, rq := range c.Requires {
			t, err := fr.evalClause(rq, &evalCtx{fr: fr, st: fr.st, old: fr.st, names: names, callee: key})
			if err != nil {
				fr.stale("go "+key+"/requires", err)
				continue
			}
			fr.oblige("go-requires", fr.ordName("go "+key)+"/"+clauseName("requires", i, rq), t)
		}
	}
	fr.vc.abstracted("goroutine spawn " + key + ": effects not sequenced with the spawner")
}

func (fr *Frame) doSend(s *ssa.Send) {
	fr.vc.abstracted("channel send (no effect on modelled state)")
}

// checkWaitObservesStop: in a function whose contract says
// `attr waits-observe-stop <field>`, every blocking wait on channels must
// include the channel held in that field (the one Close() closes) - a wait
// that ignores it cannot be interrupted by Close (safety projection of
// "Close releases everybody", property C16).
func (fr *Frame) checkWaitObservesStop(chans []ssa.Value, what string) {
	top := fr.topFrame()
	if top.contract == nil || fr != top {
		return
	}
	field, ok := top.contract.Attrs["waits-observe-stop"]
	if !ok || field == "" {
		return
	}
	for _, c := range chans {
		if u, ok := c.(*ssa.UnOp); ok && u.Op == token.MUL {
			if fa, ok := u.X.(*ssa.FieldAddr); ok {
				if st := structOf(fa.X.Type().Underlying().(*types.Pointer).Elem()); st != nil && st.Field(fa.Field).Name() == field {
					return
				}
			}
		}
	}
	o := fr.oblige("wait", fr.ordName("wait/observes-"+field), "false")
	o.Static = "fail:blocking " + what + " that does not listen on " + field + ": Close() cannot interrupt this wait"
}

func (fr *Frame) doRecv(i *ssa.UnOp, ch *Val) *Val {
	fr.checkWaitObservesStop([]ssa.Value{i.X}, "receive")
	fr.vc.abstracted("channel receive (value unconstrained)")
	return fr.havocVal(i.Type(), "recv")
}

func (fr *Frame) doClose(ch *Val) {
	// closed flag: ghost heap G$closed : Array Int Bool
	name := "CH$closed"
	if _, ok := fr.vc.heapSort[name]; !ok {
		fr.vc.heapSort[name] = arrSort(sBool)
	}
	h := fr.vc.heapGet(fr.st, name)
	c := fr.scalar(ch)
	fr.oblige("P0", fr.ordName("P0/close-nil-or-closed"), and(app("distinct", c, "0"), not(sel(h, c))))
	fr.vc.heapSet(fr.st, name, sto(h, c, "true"))
}

// checkGuarded is the hook for guarded-by obligations (see locks.go).
func (fr *Frame) checkGuarded(l *Loc, write bool) {
	fr.eng.guardedCheck(fr, l, write)
}

// closureCreated: a closure whose contract says `attr at-creation` must have
// its (parameter-free) preconditions established where it is created, since
// it may run at any later time.
func (fr *Frame) closureCreated(mc *ssa.MakeClosure, v *Val) {
	fn := mc.Fn.(*ssa.Function)
	key := fr.eng.keyOf(fn)
	c := fr.eng.cf.Contracts[key]
	if c == nil {
		return
	}
	if _, ok := c.Attrs["at-creation"]; !ok {
		return
	}
	for i, rq := range c.Requires {
		t, err := fr.evalClause(rq, &evalCtx{fr: fr, st: fr.st, old: fr.st, names: map[string]*Val{}, callee: key})
		if err != nil {
			fr.stale("closure "+key+"/"+clauseName("requires", i, rq), err)
			continue
		}
		fr.oblige("call-requires", fr.ordName("closure "+key)+"/"+clauseName("requires", i, rq), t)
	}
}
