package main

import (
	"path/filepath"
	"fmt"
	"go/token"
	"go/types"
	"sort"
	"runtime/debug"
	"strings"

	"golang.org/x/tools/go/ssa"
)

// verifyFunc generates the obligations of one function under contract.
func (e *Engine) verifyFunc(key string) (vc *VC, err error) {
	c := e.cf.Contracts[key]
	fn := e.fnByKey[key]
	vc = newVC(e, key)
	if c == nil {
		return nil, fmt.Errorf("no contract for %s", key)
	}
	if fn == nil {
		if e.ifaceMethod(key) != nil {
			return vc, nil // interface method contract: nothing to verify by itself
		}
		o := &Obl{Name: "exists", Kind: "stale", Guard: "true", Formula: "false", Func: key,
			Static: "fail:STALE-CONTRACT function " + key + " named by the contract file does not exist"}
		vc.obls = append(vc.obls, o)
		return vc, nil
	}
	if c.Trusted {
		vc.assumed["trusted contract (body not verified): "+key+" ("+c.Attrs["trusted"]+")"] = true
		return vc, nil
	}
	defer func() {
		if r := recover(); r != nil {
			err = fmt.Errorf("%s: engine error: %v\n%s", key, r, debug.Stack())
		}
	}()
	vc.declare("alloc@0", sInt)
	vc.fact("(<= 0 alloc@0)")
	vc.bitsExact = c.Attrs["bits"] == "exact"
	vc.nativeArith = c.Attrs["arith"] == "native"
	vc.axioms = strings.Fields(c.Attrs["axioms"])
	if ks, ok := c.Attrs["obligations"]; ok {
		vc.onlyKinds = map[string]bool{}
		for _, k := range strings.Fields(ks) {
			vc.onlyKinds[k] = true
		}
		vc.assumed["thin contract for "+key+": only obligations of kinds ["+ks+"] are generated and claimed"] = true
	}
	if ls, ok := c.Attrs["only-labels"]; ok {
		vc.onlyLabels = map[string]bool{}
		for _, l := range strings.Fields(ls) {
			vc.onlyLabels[l] = true
		}
	}
	st := &State{heaps: map[string]string{}, alloc: "alloc@0"}
	fr := &Frame{eng: e, vc: vc, fn: fn, key: key, vals: map[ssa.Value]*Val{}, st: st, reach: "true", contract: c, top: true,
		overflow: c.Attrs["overflow"] == "check"}
	fr.entry = st.clone()
	names := map[string]*Val{}
	for _, p := range fn.Params {
		v := fr.havocVal(p.Type(), "p_"+p.Name())
		fr.params = append(fr.params, v)
		names[p.Name()] = v
	}
	// free variables of closures verified on their own
	for _, fv := range fn.FreeVars {
		v := fr.value(fv)
		if v.loc != nil {
			names[fv.Name()] = nil // resolved lazily through resolveLocal
			delete(names, fv.Name())
		} else {
			names[fv.Name()] = v
		}
	}
	for _, g := range c.Ghosts {
		t := e.parseType(g.Type)
		if t == nil {
			fr.stale("ghost "+g.Name, fmt.Errorf("unknown type %s", g.Type))
			continue
		}
		names[g.Name] = fr.havocVal(t, "ghost_"+g.Name)
		fr.ghosts = append(fr.ghosts, names[g.Name])
	}
	fr.topNames = names
	for i, rq := range c.Requires {
		t, err := fr.evalClause(rq, &evalCtx{fr: fr, st: fr.st, old: fr.entry, names: names, assuming: true})
		if err != nil {
			fr.stale(clauseName("requires", i, rq), err)
			continue
		}
		vc.fact(t)
	}
	if c.Decreases != nil {
		t, err := fr.evalClauseInt(c.Decreases, &evalCtx{fr: fr, st: fr.st, old: fr.entry, names: names})
		if err != nil {
			fr.stale("decreases", err)
		} else {
			v := vc.fresh("variant0", sInt)
			vc.fact(eq(v, t))
			fr.variant0 = v
		}
	}
	fr.seedAll()
	e.assumeEntryInvariants(fr, names)
	vc.covers = append(vc.covers, &Obl{Name: "requires/cover", Kind: "cover", Guard: "true", Formula: "true", NFacts: len(vc.facts), Func: key, Pos: e.fset.Position(fn.Pos())})
	fr.run()
	// postconditions at every return
	usedRet := map[int]bool{}
	for ri, r := range fr.rets {
		fr.reach = r.reach
		fr.st = r.st
		fr.curInstr = r.instr
		rn := map[string]*Val{}
		for k, v := range names {
			rn[k] = v
		}
		bindResults(rn, r.val, fn.Signature.Results())
		var provenEns []string
		for i, en := range c.Ensures {
			if strings.HasPrefix(en.Label, "assume_") {
				vc.assumed["assumed postcondition of "+key+": "+en.Src] = true
				continue
			}
			t, err := fr.evalClause(en, &evalCtx{fr: fr, st: fr.st, old: fr.entry, names: rn, region: fr.st.region})
			if err != nil {
				if ri == 0 {
					fr.stale(clauseName("ensures", i, en), err)
				}
				continue
			}
			o := fr.oblige("ensures", clauseName("ensures", i, en), implies(and(provenEns...), t))
			o.Note = en.Src
			if ta, err := fr.evalClause(en, &evalCtx{fr: fr, st: fr.st, old: fr.entry, names: rn, assuming: true, region: fr.st.region}); err == nil {
				provenEns = append(provenEns, ta)
			}
		}
		// `return N:` clauses: obligations at the N-th return statement in source order
		if len(c.Returns) > 0 {
			ord := returnOrdinal(fn, r.instr)
			for i, rc := range c.Returns {
				if rc.Ord != ord {
					continue
				}
				nm := fmt.Sprintf("return#%d/%s", ord, clauseName("at", i, rc.C))
				t, err := fr.evalClause(rc.C, &evalCtx{fr: fr, st: fr.st, old: fr.entry, names: rn, region: fr.st.region})
				if err != nil {
					fr.stale(nm, err)
					continue
				}
				o := fr.oblige("ensures", nm, t)
				o.Note = rc.C.Src
				usedRet[i] = true
			}
		}
		e.frameObligations(fr, c, names)
		e.exitInvariants(fr, names)
	}
	for i, rc := range c.Returns {
		if !usedRet[i] {
			fr.stale(fmt.Sprintf("return#%d/%s", rc.Ord, clauseName("at", i, rc.C)), fmt.Errorf("the function has no return statement number %d", rc.Ord))
		}
	}
	vc.covers = append(vc.covers, &Obl{Name: "returns/cover", Kind: "cover", Guard: orReach(fr.rets), Formula: "true", NFacts: len(vc.facts), Func: key, Pos: e.fset.Position(fn.Pos())})
	// one cover per distinct reachability guard that carries an obligation: an
	// obligation behind an unsatisfiable guard is discharged vacuously (e.g. a
	// contract of a callee that forgets an effect can make the rest of the
	// function unreachable).  Code that is dead on purpose is declared with
	// `attr dead-ok <n>` (number of such guards) in the contract.
	seenG := map[string]*Obl{}
	var order []string
	for _, o := range vc.obls {
		if o.Static != "" || o.Guard == "true" || o.Guard == "" {
			continue
		}
		if c0, ok := seenG[o.Guard]; ok {
			if o.NFacts > c0.NFacts {
				c0.NFacts = o.NFacts
			}
			continue
		}
		cv := &Obl{Name: fmt.Sprintf("reach/cover#%d (%s:%d, first obligation %s)", len(order)+1, filepath.Base(o.Pos.Filename), o.Pos.Line, o.Name), Kind: "cover", Guard: o.Guard, Formula: "true", NFacts: o.NFacts, Func: key, Pos: o.Pos}
		seenG[o.Guard] = cv
		order = append(order, o.Guard)
	}
	for _, g := range order {
		vc.covers = append(vc.covers, seenG[g])
	}
	return vc, nil
}

func orReach(rs []retInfo) string {
	var c []string
	for _, r := range rs {
		c = append(c, r.reach)
	}
	return or(c...)
}

// hooks for data-structure / lock invariants (regions.go may extend)
func (e *Engine) assumeEntryInvariants(fr *Frame, names map[string]*Val) { fr.assumeGlobalInvariants() }

// assumeGlobalInvariants assumes the trusted data-structure invariants of
// the contract file (assume-invariant) in the current state.
func (fr *Frame) assumeGlobalInvariants() {
	for _, inv := range fr.eng.cf.AssumedInvs {
		t, err := fr.evalClause(inv, &evalCtx{fr: fr, st: fr.st, old: fr.st, names: map[string]*Val{}, callee: "assume-invariant", assuming: true})
		if err != nil {
			fr.stale("assume-invariant "+inv.Label, err)
			continue
		}
		fr.assume(t)
		fr.vc.assumed["assumed data-structure invariant "+inv.Label+": "+inv.Src] = true
	}
}
func (e *Engine) exitInvariants(fr *Frame, names map[string]*Val)        {}

// frameObligations: every heap the function changed must be covered by its
// modifies clauses, for all objects that existed at entry.
func (e *Engine) frameObligations(fr *Frame, c *Contract, names map[string]*Val) {
	vc := fr.vc
	for _, m := range c.Modifies {
		if m.Src == "*" {
			return
		}
	}
	declared := map[string][]string{}
	whole := map[string]bool{}
	for _, m := range c.Modifies {
		if m.Src == "nothing" {
			continue
		}
		locs, err := fr.evalModifies(m, &evalCtx{fr: fr, st: fr.entry, old: fr.entry, names: names})
		if err != nil {
			fr.stale("modifies", err)
			continue
		}
		for _, l := range locs {
			for _, leaf := range leafLocs(l) {
				n := vc.registerHeap(leaf)
				if leaf.kind == locGlobal {
					declared[n] = append(declared[n], "*")
				} else {
					declared[n] = append(declared[n], leaf.ref)
				}
				if leaf.ref == "*" {
					whole[n] = true
				}
			}
		}
	}
	alloc0 := fr.entry.alloc
	for _, h := range sortedKeys(fr.st.heaps) {
		cur := fr.st.heaps[h]
		init := vc.heapInit(h)
		if cur == init {
			continue
		}
		if strings.HasPrefix(h, "RV$") || strings.HasPrefix(h, "LK$") || strings.HasPrefix(h, "CV$") {
			continue // ghost state
		}
		if whole[h] {
			continue
		}
		if ls := fr.eng.guardedBy[h]; ls != nil && fr.topFrame().acquired[ls] {
			// the function took the lock guarding this field: other threads may
			// have written it, so "unchanged since entry" is not a meaningful
			// frame; what the function itself does to it is stated by its
			// unlock clauses and the lock invariant
			vc.abstracted("frame of lock-guarded fields of a function that takes the lock is expressed by its unlock clauses, not by modifies")
			continue
		}
		if strings.HasPrefix(h, "G$") {
			if len(declared[h]) == 0 {
				fr.oblige("frame", "frame#"+h, eq(cur, init))
			}
			continue
		}
		var excl []string
		for _, r := range declared[h] {
			excl = append(excl, app("distinct", "r!", r))
		}
		cond := and(append([]string{app("<=", "0", "r!"), app("<=", "r!", alloc0)}, excl...)...)
		fr.oblige("frame", "frame#"+h, fmt.Sprintf("(forall ((r! Int)) (=> %s (= (select %s r!) (select %s r!))))", cond, cur, init))
	}
}

// evalModifies evaluates a modifies designator to locations:
//   x.f        the field f of object x
//   elems(s)   all elements of the backing array of slice s
//   *x         every field of object x
func (fr *Frame) evalModifies(cl *Clause, ctx *evalCtx) (locs []*Loc, err error) {
	defer func() {
		if r := recover(); r != nil {
			if ee, ok := r.(evalErr); ok {
				err = ee
				return
			}
			panic(r)
		}
	}()
	fr.withState(ctx.st, func() {
		e := cl.E
		switch {
		case e.Kind == "call" && e.Args[0].Kind == "ident" && e.Args[0].Name == "elems":
			s := fr.eval1(e.Args[1], ctx)
			st, ok := s.typ.Underlying().(*types.Slice)
			if !ok {
				efail("elems() of non-slice")
			}
			locs = append(locs, &Loc{kind: locElem, ref: sArr(s.t), idx: "*", root: fr.eng.elemRoot(st.Elem()), typ: st.Elem()})
		case e.Kind == "call" && e.Args[0].Kind == "ident" && e.Args[0].Name == "contents":
			// contents(m): the entries (domain, values, length) of the map object m
			x := fr.eval1(e.Args[1], ctx)
			if x.loc != nil && x.t == "" {
				x = fr.load(x.loc)
			}
			if _, ok := x.typ.Underlying().(*types.Map); !ok {
				efail("contents() of a non-map")
			}
			mh := fr.mapHeaps(x.typ)
			for _, hn := range []string{mh.dom, mh.val, mh.ln} {
				if _, ok := fr.vc.heapSort[hn]; ok {
					locs = append(locs, &Loc{kind: locField, ref: fr.scalar(x), root: hn, typ: types.Typ[types.Int]})
				}
			}
		case e.Kind == "call" && e.Args[0].Kind == "ident" && e.Args[0].Name == "heaps":
			// heaps(Type): every field of every object of that struct type
			t := fr.eng.parseType(e.Args[1].String())
			if t == nil || structOf(t) == nil {
				efail("heaps(%s): unknown struct type", e.Args[1])
			}
			locs = append(locs, &Loc{kind: locField, ref: "*", root: fr.eng.fieldRoot(t), typ: t})
		case e.Kind == "call" && e.Args[0].Kind == "ident" && e.Args[0].Name == "heap":
			// heap(Type.field): the field of every object of that type
			name := e.Args[1].String()
			parts := strings.SplitN(name, ".", 2)
			t := fr.eng.parseType(parts[0])
			if t == nil || structOf(t) == nil || len(parts) != 2 {
				efail("heap(%s): unknown struct field", name)
			}
			obj, _, _ := types.LookupFieldOrMethod(t, true, fr.eng.tpkg, parts[1])
			fv, ok := obj.(*types.Var)
			if !ok {
				efail("heap(%s): unknown field", name)
			}
			locs = append(locs, &Loc{kind: locField, ref: "*", root: fr.eng.fieldRoot(t), path: []string{parts[1]}, typ: fv.Type()})
		case e.Kind == "call" && e.Args[0].Kind == "ident" && e.Args[0].Name == "fields":
			x := fr.eval1(e.Args[1], ctx)
			pt, ok := x.typ.Underlying().(*types.Pointer)
			if !ok {
				efail("fields() of non-pointer")
			}
			locs = append(locs, fr.derefLoc(x, pt.Elem()))
		case e.Kind == "sel":
			x := fr.eval1(e.Args[0], ctx)
			pt, ok := x.typ.Underlying().(*types.Pointer)
			if !ok {
				efail("modifies %s: not a field of a pointer", cl.Src)
			}
			obj, index, _ := types.LookupFieldOrMethod(pt.Elem(), true, fr.eng.tpkg, e.Name)
			fv, isVar := obj.(*types.Var)
			if !isVar {
				efail("modifies %s: no such field", cl.Src)
			}
			cur := fr.derefLoc(x, pt.Elem())
			curT := pt.Elem()
			for k, idx := range index {
				f := structOf(curT).Field(idx)
				cur = cur.sub(f.Name(), f.Type())
				curT = f.Type()
				if k < len(index)-1 {
					if p2, ok := curT.Underlying().(*types.Pointer); ok {
						pv := fr.load(cur)
						cur = fr.derefLoc(pv, p2.Elem())
						curT = p2.Elem()
					}
				}
			}
			_ = fv
			locs = append(locs, cur)
		case e.Kind == "ident" && e.Name == "closedChans":
			// the ghost "has been closed" flag of every channel
			if _, ok := fr.vc.heapSort["CH$closed"]; !ok {
				fr.vc.heapSort["CH$closed"] = arrSort(sBool)
			}
			locs = append(locs, &Loc{kind: locField, ref: "*", root: "CH$closed", typ: types.Typ[types.Bool]})
		case e.Kind == "call" && e.Args[0].Kind == "ident" && e.Args[0].Name == "allElems":
			// allElems(T): the elements of every array of element type T
			t := fr.eng.parseType(e.Args[1].String())
			if t == nil {
				efail("allElems(%s): unknown type", e.Args[1])
			}
			locs = append(locs, &Loc{kind: locElem, ref: "*", idx: "*", root: fr.eng.elemRoot(t), typ: t})
		case e.Kind == "ident":
			if ts, ok := fr.eng.cf.GhostVars[e.Name]; ok {
				locs = append(locs, &Loc{kind: locGlobal, root: "G$ghost$" + e.Name, typ: fr.eng.parseType(ts)})
				return
			}
			if obj := fr.eng.tpkg.Scope().Lookup(e.Name); obj != nil {
				if v, ok := obj.(*types.Var); ok {
					locs = append(locs, &Loc{kind: locGlobal, root: "G$" + e.Name, typ: v.Type()})
					return
				}
			}
			efail("modifies %s: unsupported designator", cl.Src)
		default:
			efail("modifies %s: unsupported designator", cl.Src)
		}
	})
	return locs, err
}

// verifyLemma proves a lemma (optionally by induction on one int parameter).
func (e *Engine) verifyLemma(name string) (vc *VC, err error) {
	lm := e.cf.Lemmas[name]
	vc = newVC(e, "lemma "+name)
	defer func() {
		if r := recover(); r != nil {
			err = fmt.Errorf("lemma %s: engine error: %v\n%s", name, r, debug.Stack())
		}
	}()
	vc.declare("alloc@0", sInt)
	st := &State{heaps: map[string]string{}, alloc: "alloc@0"}
	fr := &Frame{eng: e, vc: vc, key: "lemma " + name, vals: map[ssa.Value]*Val{}, st: st, entry: st, reach: "true"}
	mk := func(suffix string) map[string]*Val {
		names := map[string]*Val{}
		for _, p := range lm.Params {
			s, t := fr.sortOfTypeString(p.Type)
			c := sanitize(p.Name + suffix)
			vc.declare(c, s)
			names[p.Name] = &Val{t: c, sort: s, typ: t}
		}
		return names
	}
	names := mk("")
	evalAll := func(cls []*Clause, nm map[string]*Val) []string {
		var out []string
		for _, cl := range cls {
			t, err := fr.evalClause(cl, &evalCtx{fr: fr, st: st, old: st, names: nm, callee: "lemma"})
			if err != nil {
				panic(err)
			}
			out = append(out, t)
		}
		return out
	}
	for _, t := range evalAll(lm.Requires, names) {
		vc.fact(t)
	}
	if lm.Induct != "" {
		// induction hypothesis: the lemma for every smaller non-negative value of the induction variable
		var binders, reqs, enss []string
		hn := map[string]*Val{}
		for _, p := range lm.Params {
			v := names[p.Name]
			if p.Name == lm.Induct {
				hn[p.Name] = &Val{t: "ih!" + p.Name, sort: v.sort, typ: v.typ}
				binders = append(binders, fmt.Sprintf("(ih!%s %s)", p.Name, v.sort))
			} else {
				hn[p.Name] = &Val{t: "ih!" + p.Name, sort: v.sort, typ: v.typ}
				binders = append(binders, fmt.Sprintf("(ih!%s %s)", p.Name, v.sort))
			}
		}
		reqs = evalAll(lm.Requires, hn)
		enss = evalAll(lm.Ensures, hn)
		iv := names[lm.Induct].t
		hyp := fmt.Sprintf("(forall (%s) (=> (and (<= 0 ih!%s) (< ih!%s %s) %s) %s))", strings.Join(binders, " "), lm.Induct, lm.Induct, iv, and(reqs...), and(enss...))
		vc.fact(hyp)
	}
	for i, t := range evalAll(lm.Ensures, names) {
		o := fr.oblige("lemma", clauseName("ensures", i, lm.Ensures[i]), t)
		o.Note = lm.Ensures[i].Src
	}
	return vc, nil
}

// returnOrdinal: the 1-based source-order ordinal of a return statement among
// the return instructions of fn (an implicit return at the closing brace
// counts, it is the last one).
func returnOrdinal(fn *ssa.Function, r ssa.Instruction) int {
	var ps []token.Pos
	for _, b := range fn.Blocks {
		for _, in := range b.Instrs {
			if ret, ok := in.(*ssa.Return); ok && ret.Pos() != token.NoPos && b != fn.Recover {
				ps = append(ps, ret.Pos())
			}
		}
	}
	sort.Slice(ps, func(i, j int) bool { return ps[i] < ps[j] })
	for i, p := range ps {
		if p == r.Pos() {
			return i + 1
		}
	}
	return 0
}
