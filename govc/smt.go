package main

// SMT-LIB term construction helpers.  Terms are plain strings; sorts are
// tracked by the executor (Val.sort).

import (
	"fmt"
	"go/types"
	"math/big"
	"sort"
	"strings"
)

const (
	sInt  = "Int"
	sBool = "Bool"
	sReal = "Real"
	sSlc  = "Slc"
	sIfc  = "Ifc"
)

const smtPrelude = `(set-option :produce-models true)
(set-logic ALL)
(declare-datatypes ((Slc 0)) (((mk-slc (s-arr Int) (s-off Int) (s-len Int) (s-cap Int)))))
(declare-datatypes ((Ifc 0)) (((mk-ifc (i-tag Int) (i-val Int)))))
(declare-fun brank ((Array Int Int) Int Int) Real)
(assert (forall ((c (Array Int Int)) (o Int) (l Int)) (! (and (>= (brank c o l) 0.0) (=> (<= l 0) (= (brank c o l) 0.0)) (=> (> l 0) (> (brank c o l) 0.0))) :pattern ((brank c o l)))))
(declare-fun seedI (Int) Bool)
(declare-fun seedR (Real) Bool)
(declare-fun seedB (Bool) Bool)
(declare-fun seedS (Slc) Bool)
(declare-fun seedF (Ifc) Bool)
(declare-fun strlen (Int) Int)
(declare-fun IDX (Int Int) Int)
(assert (forall ((o Int) (i Int)) (! (= (IDX o i) (+ o i)) :pattern ((IDX o i)))))
(declare-fun MUL (Int Int) Int)
(assert (forall ((x Int) (z Int) (y Int)) (! (=> (and (< x z) (> y 0)) (<= (+ (MUL x y) y) (MUL z y))) :pattern ((MUL x y) (MUL z y)))))
(assert (forall ((y Int)) (! (= (MUL 0 y) 0) :pattern ((MUL 0 y)))))
(assert (forall ((y Int)) (! (= (MUL 1 y) y) :pattern ((MUL 1 y)))))
(assert (forall ((x Int) (y Int)) (! (=> (and (>= x 0) (>= y 0)) (>= (MUL x y) 0)) :pattern ((MUL x y)))))
(assert (forall ((x Int) (y Int)) (! (=> (and (>= x 1) (>= y 0)) (>= (MUL x y) y)) :pattern ((MUL x y)))))
(declare-fun DIVU (Int Int) Int)
(declare-fun MODU (Int Int) Int)
(assert (forall ((x Int) (y Int)) (! (=> (> y 0) (= (MODU (MUL x y) y) 0)) :pattern ((MODU (MUL x y) y)))))
(assert (forall ((x Int) (y Int)) (! (=> (and (>= x 0) (> y 0)) (and (<= 0 (MODU x y)) (< (MODU x y) y))) :pattern ((MODU x y)))))
(assert (forall ((x Int) (y Int)) (! (=> (and (>= x 0) (> y 0)) (and (<= 0 (DIVU x y)) (<= (DIVU x y) x) (<= (MUL (DIVU x y) y) x) (< x (+ (MUL (DIVU x y) y) y)))) :pattern ((DIVU x y)))))
(assert (forall ((x Int) (d Int) (y Int)) (! (=> (and (> d 0) (>= x 0) (<= 0 y) (<= y d)) (<= (MUL (DIVU x d) y) x)) :pattern ((MUL (DIVU x d) y)))))
`

// optional axioms, enabled per contract by `attr axioms <name>...`
var optionalAxioms = map[string]string{
	"mulsucc": "(assert (forall ((x Int) (y Int)) (! (= (MUL (+ x 1) y) (+ (MUL x y) y)) :pattern ((MUL (+ x 1) y)))))",
}

func app(op string, args ...string) string {
	return "(" + op + " " + strings.Join(args, " ") + ")"
}

func and(args ...string) string {
	var a []string
	for _, x := range args {
		if x == "true" {
			continue
		}
		if x == "false" {
			return "false"
		}
		a = append(a, x)
	}
	if len(a) == 0 {
		return "true"
	}
	if len(a) == 1 {
		return a[0]
	}
	return app("and", a...)
}

func or(args ...string) string {
	var a []string
	for _, x := range args {
		if x == "false" {
			continue
		}
		if x == "true" {
			return "true"
		}
		a = append(a, x)
	}
	if len(a) == 0 {
		return "false"
	}
	if len(a) == 1 {
		return a[0]
	}
	return app("or", a...)
}

func not(a string) string {
	if a == "true" {
		return "false"
	}
	if a == "false" {
		return "true"
	}
	return app("not", a)
}

func implies(a, b string) string {
	if a == "true" {
		return b
	}
	if b == "true" {
		return "true"
	}
	return app("=>", a, b)
}

func ite(c, a, b string) string {
	if c == "true" {
		return a
	}
	if c == "false" {
		return b
	}
	if a == b {
		return a
	}
	return app("ite", c, a, b)
}

func eq(a, b string) string {
	if a == b {
		return "true"
	}
	return app("=", a, b)
}

func intLit(n int64) string {
	if n < 0 {
		return fmt.Sprintf("(- %d)", -n)
	}
	return fmt.Sprintf("%d", n)
}

func bigLit(n *big.Int) string {
	if n.Sign() < 0 {
		return "(- " + new(big.Int).Neg(n).String() + ")"
	}
	return n.String()
}

func sel(a, i string) string     { return app("select", a, i) }
func sto(a, i, v string) string  { return app("store", a, i, v) }
func sArr(s string) string       { return slcAcc("s-arr", s, 0) }
func sOff(s string) string       { return slcAcc("s-off", s, 1) }
func sLen(s string) string       { return slcAcc("s-len", s, 2) }
func sCap(s string) string       { return slcAcc("s-cap", s, 3) }
func mkSlc(a, o, l, c string) string { return app("mk-slc", a, o, l, c) }
func mkIfc(t, v string) string   { return app("mk-ifc", t, v) }

const nilSlc = "(mk-slc 0 0 0 0)"
const nilIfc = "(mk-ifc 0 0)"

// slcAcc simplifies accessor-of-constructor.
func slcAcc(acc, s string, idx int) string {
	if strings.HasPrefix(s, "(mk-slc ") {
		parts := splitTop(s[1 : len(s)-1])
		if len(parts) == 5 {
			return parts[idx+1]
		}
	}
	return app(acc, s)
}

func iTag(s string) string {
	if strings.HasPrefix(s, "(mk-ifc ") {
		parts := splitTop(s[1 : len(s)-1])
		if len(parts) == 3 {
			return parts[1]
		}
	}
	return app("i-tag", s)
}
func iVal(s string) string {
	if strings.HasPrefix(s, "(mk-ifc ") {
		parts := splitTop(s[1 : len(s)-1])
		if len(parts) == 3 {
			return parts[2]
		}
	}
	return app("i-val", s)
}

// splitTop splits an s-expression body at top-level whitespace.
func splitTop(s string) []string {
	var out []string
	depth := 0
	start := -1
	for i := 0; i < len(s); i++ {
		c := s[i]
		switch {
		case c == '(':
			if depth == 0 && start < 0 {
				start = i
			}
			depth++
		case c == ')':
			depth--
		case c == ' ' || c == '\n' || c == '\t':
			if depth == 0 && start >= 0 {
				out = append(out, s[start:i])
				start = -1
			}
		default:
			if start < 0 {
				start = i
			}
		}
	}
	if start >= 0 {
		out = append(out, s[start:])
	}
	return out
}

func arrSort(elem string) string  { return "(Array Int " + elem + ")" }
func arr2Sort(elem string) string { return "(Array Int (Array Int " + elem + "))" }

// sortOf maps a Go type to the SMT sort of a scalar value; "" for struct
// values (flattened by the executor) and unsupported kinds.
func sortOf(t types.Type) string {
	switch u := t.Underlying().(type) {
	case *types.Basic:
		switch {
		case u.Info()&types.IsBoolean != 0:
			return sBool
		case u.Info()&types.IsInteger != 0:
			return sInt
		case u.Info()&types.IsFloat != 0:
			return sReal
		case u.Info()&types.IsString != 0:
			return sInt
		case u.Kind() == types.UnsafePointer:
			return sInt
		case u.Kind() == types.UntypedNil:
			return sInt
		}
		return sInt
	case *types.Pointer, *types.Map, *types.Chan, *types.Signature:
		return sInt
	case *types.Slice:
		return sSlc
	case *types.Interface:
		return sIfc
	case *types.Struct:
		return ""
	case *types.Array:
		return ""
	case *types.Tuple:
		return ""
	}
	return sInt
}

// intRange returns the [lo,hi] range of an integer type, ok=false otherwise.
func intRange(t types.Type) (lo, hi *big.Int, ok bool) {
	b, isB := t.Underlying().(*types.Basic)
	if !isB || b.Info()&types.IsInteger == 0 {
		return nil, nil, false
	}
	bits := 64
	switch b.Kind() {
	case types.Int8, types.Uint8:
		bits = 8
	case types.Int16, types.Uint16:
		bits = 16
	case types.Int32, types.Uint32:
		bits = 32
	}
	one := big.NewInt(1)
	if b.Info()&types.IsUnsigned != 0 {
		hi = new(big.Int).Sub(new(big.Int).Lsh(one, uint(bits)), one)
		return big.NewInt(0), hi, true
	}
	hi = new(big.Int).Sub(new(big.Int).Lsh(one, uint(bits-1)), one)
	lo = new(big.Int).Neg(new(big.Int).Lsh(one, uint(bits-1)))
	return lo, hi, true
}

func isUnsigned(t types.Type) bool {
	b, ok := t.Underlying().(*types.Basic)
	return ok && b.Info()&types.IsUnsigned != 0
}

func rangeFact(term string, t types.Type) string {
	lo, hi, ok := intRange(t)
	if !ok {
		return "true"
	}
	return and(app("<=", bigLit(lo), term), app("<=", term, bigLit(hi)))
}

func sortedKeys[V any](m map[string]V) []string {
	ks := make([]string, 0, len(m))
	for k := range m {
		ks = append(ks, k)
	}
	sort.Strings(ks)
	return ks
}

var pow2 = func() []*big.Int {
	p := make([]*big.Int, 65)
	for i := range p {
		p[i] = new(big.Int).Lsh(big.NewInt(1), uint(i))
	}
	return p
}()

// contiguousMask reports lo,hi such that m == 2^hi - 2^lo.
func contiguousMask(m *big.Int) (lo, hi int, ok bool) {
	if m.Sign() <= 0 || m.BitLen() > 64 {
		return 0, 0, false
	}
	lo = int(m.TrailingZeroBits())
	hi = m.BitLen()
	want := new(big.Int).Sub(pow2[hi], pow2[lo])
	return lo, hi, want.Cmp(m) == 0
}
