package main

// Parser for the //@ contract blocks of /repo/verif_contracts.go.

import (
	"bufio"
	"fmt"
	"os"
	"regexp"
	"strconv"
	"strings"
)

type Clause struct {
	Label string
	Src   string
	E     *CExpr
	Line  int
}

type LoopContract struct {
	Ord        int
	Invariants []*Clause
	Decreases  *Clause
	Modifies   []*Clause
	Lemmas     []*Clause // instances of built-in arithmetic lemmas assumed at the loop head
	Latch      []*Clause // per-iteration assertions checked at every latch; atHead(e) is e at the loop head
}

type Contract struct {
	Key      string // "segment.findKeyPos", "encodeOpKeyLenValLen", "Segment.Get"
	Sig      string
	Props    []string
	Attrs    map[string]string
	Requires []*Clause
	Ensures  []*Clause
	Modifies []*Clause
	Loops    map[int]*LoopContract
	Unlocks  []UnlockClause // obligations at the n-th Unlock/Wait site of the function
	Returns  []UnlockClause // obligations at the n-th return statement (source order) of the function
	Waits    []*Clause      // obligations at EVERY Cond.Wait site of the function (`wait: expr`)
	Decreases *Clause // termination measure for (mutually) recursive functions
	Ghosts   []SpecParam // ghost parameters (universally quantified in the callee, bound by unique type match at call sites)
	Line     int
	Trusted  bool // contract assumed, body not verified
	Dead     []string // source-line fragments of code that may be unreachable under the contracts (error paths excluded by preconditions or by callees that cannot fail)
}

type UnlockClause struct {
	Ord int
	C   *Clause
}

type GuardedSpec struct {
	Key    string
	Fields []string
	Inv    []*Clause
}

type SpecParam struct{ Name, Type string }

type SpecFn struct {
	Name   string
	Kind   string // macro | opaque | rec | abstract
	Params []SpecParam
	Ret    string
	Src    string
	Body   *CExpr
	Reads  []*CExpr // abstract functions: expressions whose heap footprint the function may depend on
	Line   int
}

type Lemma struct {
	Name     string
	Params   []SpecParam
	Requires []*Clause
	Ensures  []*Clause
	Induct   string // name of the int parameter to induct on ("" = direct)
	Props    []string
	Line     int
}

type ContractFile struct {
	Contracts map[string]*Contract
	Order     []string
	Specs     map[string]*SpecFn
	SpecOrder []string
	Lemmas    map[string]*Lemma
	LemmaOrd  []string
	Immutable []string // "<Type>.<field>[.<sub>]": fields written only at construction
	Guarded  []*GuardedSpec
	GhostVars map[string]string // ghost globals: name -> type
	AssumedInvs []*Clause // closed formulas assumed in every state at cut points (trusted data-structure invariants)
	NonNilMaps []string // map types whose values are never nil (checked at every MapUpdate under contract, assumed at reads)
	Path      string
}

var reFuncHdr = regexp.MustCompile(`^func\s+(?:\(\s*(?:\w+\s+)?\*?(\w+)\s*\)\s*)?([\w$./-]+)\s*(\(.*)?$`)
var reSpecHdr = regexp.MustCompile(`^pure\s+(?:(opaque|rec|abstract)\s+)?func\s+(\w+)\s*\(([^)]*)\)\s*([^=]*?)\s*(?:=\s*(.*))?$`)
var reReads = regexp.MustCompile(`^(.*?)\s+reads\s+(.*)$`)
var reLemmaHdr = regexp.MustCompile(`^lemma\s+(\w+)\s*\(([^)]*)\)\s*$`)
var reLoop = regexp.MustCompile(`^loop\s+(\d+)\s*:\s*(.*)$`)
var reLabel = regexp.MustCompile(`^@(\w+)\s+(.*)$`)

func parseParams(s string) ([]SpecParam, error) {
	var out []SpecParam
	s = strings.TrimSpace(s)
	if s == "" {
		return nil, nil
	}
	for _, p := range strings.Split(s, ",") {
		f := strings.Fields(strings.TrimSpace(p))
		if len(f) != 2 {
			return nil, fmt.Errorf("bad parameter %q (want `name type`)", p)
		}
		out = append(out, SpecParam{f[0], f[1]})
	}
	return out, nil
}

func parseContractFile(path string) (*ContractFile, error) {
	f, err := os.Open(path)
	if err != nil {
		return nil, err
	}
	defer f.Close()
	cf := &ContractFile{Contracts: map[string]*Contract{}, Specs: map[string]*SpecFn{}, Lemmas: map[string]*Lemma{}, Path: path}

	type rawClause struct {
		kw   string
		text string
		line int
	}
	type block struct {
		hdr     string
		line    int
		clauses []*rawClause
	}
	var blocks []*block
	var cur *block
	var pendingInv *Clause
	var lockInvs []*Clause
	sc := bufio.NewScanner(f)
	sc.Buffer(make([]byte, 1<<20), 1<<20)
	ln := 0
	kwRe := regexp.MustCompile(`^(props|overflow|requires|ensures|modifies|loop|trusted|attr|induction|ghost|decreases|unlock|return|wait|dead)\b\s*(.*)$`)
	for sc.Scan() {
		ln++
		line := strings.TrimSpace(sc.Text())
		if !strings.HasPrefix(line, "//@") {
			continue
		}
		body := strings.TrimSpace(line[3:])
		if i := strings.Index(body, " //"); i >= 0 { // trailing comment
			body = strings.TrimSpace(body[:i])
		}
		if body == "" {
			continue
		}
		if strings.HasPrefix(body, "guarded ") {
			rest := strings.TrimPrefix(body, "guarded ")
			kv := strings.SplitN(rest, ":", 2)
			if len(kv) == 2 {
				g := &GuardedSpec{Key: strings.TrimSpace(kv[0])}
				for _, f := range splitTopComma(kv[1]) {
					g.Fields = append(g.Fields, f)
				}
				cf.Guarded = append(cf.Guarded, g)
			}
			cur = nil
			pendingInv = nil
			continue
		}
		if strings.HasPrefix(body, "lock-invariant ") {
			rest := strings.TrimPrefix(body, "lock-invariant ")
			kv := strings.SplitN(rest, ":", 2)
			if len(kv) == 2 {
				pendingInv = &Clause{Src: strings.TrimSpace(kv[1]), Line: ln}
				cf.Guarded = append(cf.Guarded, &GuardedSpec{Key: strings.TrimSpace(kv[0]), Inv: []*Clause{pendingInv}})
				lockInvs = append(lockInvs, pendingInv)
			}
			cur = nil
			continue
		}
		if strings.HasPrefix(body, "ghost var ") {
			f := strings.Fields(strings.TrimPrefix(body, "ghost var "))
			if len(f) == 2 {
				if cf.GhostVars == nil {
					cf.GhostVars = map[string]string{}
				}
				cf.GhostVars[f[0]] = f[1]
			}
			cur = nil
			continue
		}
		if strings.HasPrefix(body, "assume-invariant ") {
			rest := strings.TrimPrefix(body, "assume-invariant ")
			pendingInv = &Clause{Src: rest, Line: ln}
			cf.AssumedInvs = append(cf.AssumedInvs, pendingInv)
			cur = nil
			continue
		}
		if cur == nil && pendingInv != nil && !strings.HasPrefix(body, "func ") && !strings.HasPrefix(body, "pure ") && !strings.HasPrefix(body, "lemma ") && !strings.HasPrefix(body, "immutable ") && !strings.HasPrefix(body, "nonnil-values ") && !strings.HasPrefix(body, "guarded ") && !strings.HasPrefix(body, "lock-invariant ") && !strings.HasPrefix(body, "ghost var ") {
			pendingInv.Src += " " + body
			continue
		}
		if strings.HasPrefix(body, "nonnil-values ") {
			for _, f := range splitTopComma(strings.TrimPrefix(body, "nonnil-values ")) {
				cf.NonNilMaps = append(cf.NonNilMaps, f)
			}
			cur = nil
			continue
		}
		if strings.HasPrefix(body, "immutable ") {
			for _, f := range splitTopComma(strings.TrimPrefix(body, "immutable ")) {
				cf.Immutable = append(cf.Immutable, f)
			}
			cur = nil
			continue
		}
		if strings.HasPrefix(body, "func ") || strings.HasPrefix(body, "pure ") || strings.HasPrefix(body, "lemma ") {
			pendingInv = nil
			cur = &block{hdr: body, line: ln}
			blocks = append(blocks, cur)
			continue
		}
		if cur == nil {
			return nil, fmt.Errorf("%s:%d: clause outside a block", path, ln)
		}
		if m := kwRe.FindStringSubmatch(body); m != nil {
			cur.clauses = append(cur.clauses, &rawClause{kw: m[1], text: m[2], line: ln})
			continue
		}
		// continuation
		if len(cur.clauses) == 0 {
			cur.hdr += " " + body
		} else {
			cur.clauses[len(cur.clauses)-1].text += " " + body
		}
	}
	mkClause := func(text string, line int) (*Clause, error) {
		c := &Clause{Src: text, Line: line}
		if strings.TrimSpace(text) == "*" || strings.TrimSpace(text) == "nothing" {
			c.Src = strings.TrimSpace(text)
			return c, nil
		}
		if m := reLabel.FindStringSubmatch(text); m != nil {
			c.Label = m[1]
			c.Src = m[2]
		}
		e, err := parseCExpr(c.Src)
		if err != nil {
			return nil, fmt.Errorf("%s:%d: %v", path, line, err)
		}
		c.E = e
		return c, nil
	}
	for _, inv := range lockInvs {
		if m := regexp.MustCompile(`^@(\w+)\s+(.*)$`).FindStringSubmatch(inv.Src); m != nil {
			inv.Label = m[1]
			inv.Src = m[2]
		}
		e, err := parseCExpr(inv.Src)
		if err != nil {
			return nil, fmt.Errorf("%s:%d: %v", path, inv.Line, err)
		}
		inv.E = e
	}
	for _, inv := range cf.AssumedInvs {
		src := inv.Src
		if m := regexp.MustCompile(`^(\w+)\s*:\s*(.*)$`).FindStringSubmatch(src); m != nil {
			inv.Label = m[1]
			src = m[2]
		}
		inv.Src = src
		e, err := parseCExpr(src)
		if err != nil {
			return nil, fmt.Errorf("%s:%d: %v", path, inv.Line, err)
		}
		inv.E = e
	}
	for _, b := range blocks {
		switch {
		case strings.HasPrefix(b.hdr, "pure "):
			m := reSpecHdr.FindStringSubmatch(b.hdr)
			if m == nil {
				return nil, fmt.Errorf("%s:%d: bad spec function header %q", path, b.line, b.hdr)
			}
			ps, err := parseParams(m[3])
			if err != nil {
				return nil, fmt.Errorf("%s:%d: %v", path, b.line, err)
			}
			sf := &SpecFn{Name: m[2], Kind: m[1], Params: ps, Ret: strings.TrimSpace(m[4]), Src: m[5], Line: b.line}
			if sf.Kind == "" {
				sf.Kind = "macro"
			}
			if sf.Kind == "abstract" {
				if m2 := reReads.FindStringSubmatch(sf.Ret); m2 != nil {
					sf.Ret = strings.TrimSpace(m2[1])
					for _, part := range splitTopComma(m2[2]) {
						e, err := parseCExpr(part)
						if err != nil {
							return nil, fmt.Errorf("%s:%d: %v", path, b.line, err)
						}
						sf.Reads = append(sf.Reads, e)
					}
				}
			}
			if sf.Kind != "abstract" {
				e, err := parseCExpr(sf.Src)
				if err != nil {
					return nil, fmt.Errorf("%s:%d: %v", path, b.line, err)
				}
				sf.Body = e
			}
			if _, dup := cf.Specs[sf.Name]; dup {
				return nil, fmt.Errorf("%s:%d: duplicate spec function %s", path, b.line, sf.Name)
			}
			cf.Specs[sf.Name] = sf
			cf.SpecOrder = append(cf.SpecOrder, sf.Name)
		case strings.HasPrefix(b.hdr, "lemma "):
			m := reLemmaHdr.FindStringSubmatch(b.hdr)
			if m == nil {
				return nil, fmt.Errorf("%s:%d: bad lemma header %q", path, b.line, b.hdr)
			}
			ps, err := parseParams(m[2])
			if err != nil {
				return nil, fmt.Errorf("%s:%d: %v", path, b.line, err)
			}
			lm := &Lemma{Name: m[1], Params: ps, Line: b.line}
			for _, rc := range b.clauses {
				switch rc.kw {
				case "props":
					lm.Props = strings.Fields(rc.text)
				case "induction":
					lm.Induct = strings.TrimSpace(rc.text)
				case "requires", "ensures":
					c, err := mkClause(rc.text, rc.line)
					if err != nil {
						return nil, err
					}
					if rc.kw == "requires" {
						lm.Requires = append(lm.Requires, c)
					} else {
						lm.Ensures = append(lm.Ensures, c)
					}
				default:
					return nil, fmt.Errorf("%s:%d: clause %q not allowed in a lemma", path, rc.line, rc.kw)
				}
			}
			cf.Lemmas[lm.Name] = lm
			cf.LemmaOrd = append(cf.LemmaOrd, lm.Name)
		default:
			m := reFuncHdr.FindStringSubmatch(b.hdr)
			if m == nil {
				return nil, fmt.Errorf("%s:%d: bad function header %q", path, b.line, b.hdr)
			}
			key := m[2]
			if m[1] != "" {
				key = m[1] + "." + m[2]
			}
			c := &Contract{Key: key, Sig: b.hdr, Attrs: map[string]string{}, Loops: map[int]*LoopContract{}, Line: b.line}
			for _, rc := range b.clauses {
				switch rc.kw {
				case "props":
					c.Props = strings.Fields(rc.text)
				case "overflow":
					c.Attrs["overflow"] = strings.TrimSpace(rc.text)
				case "attr":
					f := strings.Fields(rc.text)
					if len(f) >= 1 {
						c.Attrs[f[0]] = strings.Join(f[1:], " ")
					}
				case "dead":
					c.Dead = append(c.Dead, strings.TrimSpace(rc.text))
				case "trusted":
					c.Trusted = true
					c.Attrs["trusted"] = strings.TrimSpace(rc.text)
				case "unlock":
					m := regexp.MustCompile(`^(\d+)\s*:\s*(.*)$`).FindStringSubmatch(rc.text)
					if m == nil {
						return nil, fmt.Errorf("%s:%d: bad unlock clause (want `unlock <n>: expr`)", path, rc.line)
					}
					n, _ := strconv.Atoi(m[1])
					cl, err := mkClause(m[2], rc.line)
					if err != nil {
						return nil, err
					}
					c.Unlocks = append(c.Unlocks, UnlockClause{Ord: n, C: cl})
				case "wait":
					cl, err := mkClause(strings.TrimSpace(strings.TrimPrefix(strings.TrimSpace(rc.text), ":")), rc.line)
					if err != nil {
						return nil, err
					}
					c.Waits = append(c.Waits, cl)
				case "return":
					m := regexp.MustCompile(`^(\d+)\s*:\s*(.*)$`).FindStringSubmatch(rc.text)
					if m == nil {
						return nil, fmt.Errorf("%s:%d: bad return clause (want `return <n>: expr`)", path, rc.line)
					}
					n, _ := strconv.Atoi(m[1])
					cl, err := mkClause(m[2], rc.line)
					if err != nil {
						return nil, err
					}
					c.Returns = append(c.Returns, UnlockClause{Ord: n, C: cl})
				case "decreases":
					cl, err := mkClause(rc.text, rc.line)
					if err != nil {
						return nil, err
					}
					c.Decreases = cl
				case "ghost":
					ps, err := parseParams(rc.text)
					if err != nil {
						return nil, fmt.Errorf("%s:%d: %v", path, rc.line, err)
					}
					c.Ghosts = append(c.Ghosts, ps...)
				case "requires", "ensures", "modifies":
					if rc.kw == "modifies" {
						for _, part := range splitTopComma(rc.text) {
							cl, err := mkClause(part, rc.line)
							if err != nil {
								return nil, err
							}
							c.Modifies = append(c.Modifies, cl)
						}
						continue
					}
					cl, err := mkClause(rc.text, rc.line)
					if err != nil {
						return nil, err
					}
					switch rc.kw {
					case "requires":
						c.Requires = append(c.Requires, cl)
					case "ensures":
						c.Ensures = append(c.Ensures, cl)
					}
				case "loop":
					m := reLoop.FindStringSubmatch("loop " + rc.text)
					if m == nil {
						return nil, fmt.Errorf("%s:%d: bad loop clause", path, rc.line)
					}
					n, _ := strconv.Atoi(m[1])
					lc := c.Loops[n]
					if lc == nil {
						lc = &LoopContract{Ord: n}
						c.Loops[n] = lc
					}
					rest := strings.TrimSpace(m[2])
					sp := strings.SplitN(rest, " ", 2)
					if len(sp) != 2 {
						return nil, fmt.Errorf("%s:%d: bad loop clause %q", path, rc.line, rest)
					}
					if sp[0] == "modifies" {
						for _, part := range splitTopComma(sp[1]) {
							cl, err := mkClause(part, rc.line)
							if err != nil {
								return nil, err
							}
							lc.Modifies = append(lc.Modifies, cl)
						}
						continue
					}
					cl, err := mkClause(strings.TrimSpace(sp[1]), rc.line)
					if err != nil {
						return nil, err
					}
					switch sp[0] {
					case "invariant":
						lc.Invariants = append(lc.Invariants, cl)
					case "lemma":
						lc.Lemmas = append(lc.Lemmas, cl)
					case "latch":
						lc.Latch = append(lc.Latch, cl)
					case "decreases":
						lc.Decreases = cl
					case "modifies":
						lc.Modifies = append(lc.Modifies, cl)
					default:
						return nil, fmt.Errorf("%s:%d: unknown loop clause %q", path, rc.line, sp[0])
					}
				}
			}
			if _, dup := cf.Contracts[key]; dup {
				return nil, fmt.Errorf("%s:%d: duplicate contract for %s", path, b.line, key)
			}
			cf.Contracts[key] = c
			cf.Order = append(cf.Order, key)
		}
	}
	return cf, nil
}

func splitTopComma(s string) []string {
	var out []string
	depth := 0
	start := 0
	for i, c := range s {
		switch c {
		case '(', '[':
			depth++
		case ')', ']':
			depth--
		case ',':
			if depth == 0 {
				out = append(out, strings.TrimSpace(s[start:i]))
				start = i + 1
			}
		}
	}
	if t := strings.TrimSpace(s[start:]); t != "" {
		out = append(out, t)
	}
	return out
}

func clauseName(kind string, i int, c *Clause) string {
	if c.Label != "" {
		return kind + "#" + c.Label
	}
	return fmt.Sprintf("%s#%d", kind, i+1)
}
