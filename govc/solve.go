package main

import (
	"go/types"
	"context"
	"fmt"
	"os"
	"os/exec"
	"path/filepath"
	"sort"
	"strings"
	"sync"
	"time"
)

type Result struct {
	Obl     *Obl
	Status  string // unsat | sat | unknown | timeout | static-fail | error
	Backend string
	Ms      int64
	Output  string
	File    string
}

type solverCfg struct {
	name string
	argv func(file string, timeoutS int) []string
}

// Limits are CPU seconds of the solver process (ulimit -t), not wall-clock
// time: whether an obligation is discharged must not depend on how loaded the
// machine is.  The wall-clock limits handed to the solvers themselves (and
// the context deadline) are only a generous backstop.
var solvers = []solverCfg{
	{"z3-5.1.0", func(f string, t int) []string { return []string{"z3-new", fmt.Sprintf("-T:%d", wallCap(t)), f} }},
	{"z3-4.8.12", func(f string, t int) []string { return []string{"z3", fmt.Sprintf("-T:%d", wallCap(t)), f} }},
	{"cvc5-1.0", func(f string, t int) []string {
		return []string{"cvc5", "--enum-inst", fmt.Sprintf("--tlimit=%d", wallCap(t)*1000), f}
	}},
	{"z3-5.1.0-ematch", func(f string, t int) []string {
		return []string{"z3-new", fmt.Sprintf("-T:%d", wallCap(t)), "smt.auto_config=false", "smt.mbqi=false", f}
	}},
}

func wallCap(cpuS int) int { return cpuS*12 + 30 }

func runSolver(parent context.Context, sc solverCfg, file string, timeoutS int) (status string, out string, ms int64) {
	ctx, cancel := context.WithTimeout(parent, time.Duration(wallCap(timeoutS)+5)*time.Second)
	defer cancel()
	argv := sc.argv(file, timeoutS)
	start := time.Now()
	sh := append([]string{"-c", fmt.Sprintf("ulimit -t %d; exec \"$@\"", timeoutS), "sh"}, argv...)
	cmd := exec.CommandContext(ctx, "/bin/sh", sh...)
	b, _ := cmd.CombinedOutput()
	ms = time.Since(start).Milliseconds()
	out = string(b)
	first := ""
	for _, ln := range strings.Split(out, "\n") {
		ln = strings.TrimSpace(ln)
		if ln == "" || strings.HasPrefix(ln, "WARNING") || strings.HasPrefix(ln, "(warning") {
			continue
		}
		first = ln
		break
	}
	switch first {
	case "unsat", "sat", "unknown":
		return first, out, ms
	case "timeout":
		return "timeout", out, ms
	}
	if ctx.Err() != nil || strings.Contains(out, "timeout") || strings.Contains(out, "interrupted") {
		return "timeout", out, ms
	}
	if ps := cmd.ProcessState; ps != nil && !ps.Success() && first == "" {
		// killed by the CPU limit (SIGXCPU/SIGKILL) before answering
		return "timeout", out, ms
	}
	return "error", out, ms
}

// smtText renders an obligation (or cover) as an SMT-LIB script.
func (vc *VC) smtText(o *Obl, cover bool) string {
	var b strings.Builder
	b.WriteString(smtPrelude)
	eng := vc.eng
	b.WriteString(eng.bitsDecls(vc.bitsExact))
	for _, a := range vc.axioms {
		if t, ok := optionalAxioms[a]; ok {
			b.WriteString(t + "\n")
		}
	}
	// spec functions: all prepared ones (declarations are cheap; axioms only for used ones)
	used := map[string]bool{}
	var mark func(n string)
	mark = func(n string) {
		if used[n] {
			return
		}
		used[n] = true
		for _, c := range eng.specCallees[n] {
			mark(c)
		}
	}
	for n := range vc.specUsed {
		mark(n)
	}
	names := sortedKeys(used)
	for _, n := range names {
		if si := eng.specs[n]; si != nil {
			for _, d := range si.decl {
				b.WriteString(d + "\n")
			}
		}
	}
	for _, n := range names {
		if si := eng.specs[n]; si != nil {
			for _, a := range si.axioms {
				b.WriteString("(assert " + a + ")\n")
			}
		}
	}
	for _, d := range vc.decls {
		b.WriteString(d + "\n")
	}
	for _, a := range vc.entryClosureAxioms() {
		b.WriteString("(assert " + a + ")\n")
	}
	for _, a := range vc.allocFrameAxioms(o.NFacts, names) {
		b.WriteString("(assert " + a + ")\n")
	}
	for _, f := range vc.facts[:o.NFacts] {
		b.WriteString("(assert " + f + ")\n")
	}
	if cover {
		b.WriteString("(assert " + o.Guard + ")\n")
	} else {
		b.WriteString("(assert (not " + implies(o.Guard, o.Formula) + "))\n")
	}
	b.WriteString("(check-sat)\n")
	return b.String()
}

type solveOpts struct {
	workDir  string
	quickS   int
	fullS    int
	parallel int
	twoBackends bool
	quickOnly map[string]bool // obligation ids expected to fail (known findings): no long second stage
}

func solveAll(vcs []*VC, opts solveOpts) []*Result {
	type job struct {
		vc *VC
		o  *Obl
		cover bool
	}
	var jobs []job
	for _, vc := range vcs {
		for _, o := range vc.obls {
			jobs = append(jobs, job{vc, o, false})
		}
		for _, o := range vc.covers {
			jobs = append(jobs, job{vc, o, true})
		}
	}
	results := make([]*Result, len(jobs))
	var wg sync.WaitGroup
	sem := make(chan struct{}, opts.parallel)
	for i, j := range jobs {
		i, j := i, j
		if strings.HasPrefix(j.o.Static, "ok:") {
			results[i] = &Result{Obl: j.o, Status: "unsat", Backend: "static-scan", Output: j.o.Static}
			continue
		}
		if j.o.Static != "" {
			results[i] = &Result{Obl: j.o, Status: "static-fail", Output: j.o.Static}
			continue
		}
		wg.Add(1)
		sem <- struct{}{}
		go func() {
			defer wg.Done()
			defer func() { <-sem }()
			fname := filepath.Join(opts.workDir, sanitize(j.o.Func+"__"+j.o.Name)+".smt2")
			txt := j.vc.smtText(j.o, j.cover)
			os.WriteFile(fname, []byte(txt), 0o644)
			noLong := opts
			noLong.fullS = 0
			r := solveOne(j.o, fname, j.cover, noLong)
			triedSplit := false
			if !j.cover && r.Status != "unsat" && !opts.quickOnly[oblID(j.o)] {
				triedSplit = true
				// case split over the paths that join at the obligation's block:
				// E-matching does not look through the join of two heaps
				if parts := j.vc.splitsOf(j.o); len(parts) > 1 {
					all := true
					var ms int64
					for k, e := range parts {
						sf := strings.TrimSuffix(fname, ".smt2") + fmt.Sprintf("__split%d.smt2", k)
						st := strings.Replace(txt, "(check-sat)", "(assert "+e+")\n(check-sat)", 1)
						os.WriteFile(sf, []byte(st), 0o644)
						rs := solveOne(j.o, sf, false, opts)
						ms += rs.Ms
						if rs.Status != "unsat" {
							all = false
							break
						}
					}
					if all {
						r = &Result{Obl: j.o, Status: "unsat", Backend: "path-split", Ms: r.Ms + ms, File: fname}
					}
				}
			}
			if !j.cover && r.Status != "unsat" && triedSplit {
				// the long last stage on the whole obligation
				r2 := solveOne(j.o, fname, j.cover, opts)
				r2.Ms += r.Ms
				r = r2
			}
			results[i] = r
		}()
	}
	wg.Wait()
	return results
}

func solveOne(o *Obl, file string, cover bool, opts solveOpts) *Result {
	want := "unsat"
	if cover {
		want = "sat"
	}
	type r struct {
		st, out, name string
		ms            int64
	}
	quantified := strings.Contains(readFile(file), "forall")
	race := func(scs []solverCfg, timeoutS int) (r, bool) {
		ch := make(chan r, len(scs))
		ctx, cancel := context.WithCancel(context.Background())
		defer cancel() // kills the losers
		for _, sc := range scs {
			sc := sc
			go func() {
				s, o2, m := runSolver(ctx, sc, file, timeoutS)
				ch <- r{s, o2, sc.name, m}
			}()
		}
		best := r{st: "unknown"}
		for range scs {
			x := <-ch
			if x.st == want {
				return x, true
			}
			if x.st == "sat" || x.st == "unsat" {
				best = x
			} else if best.st != "sat" && best.st != "unsat" {
				if best.name == "" || x.st == "timeout" {
					best = x
				}
			}
		}
		return best, false
	}
	if cover {
		// vacuity guard: only a refutation (unsat) is a failure; E-matching answers quickly
		b, _ := race([]solverCfg{solvers[3]}, 2)
		if b.st == "unsat" {
			return &Result{Obl: o, Status: "unsat", Backend: b.name, Ms: b.ms, File: file, Output: b.out}
		}
		return &Result{Obl: o, Status: "sat", Backend: b.name + "(" + b.st + ")", Ms: b.ms, File: file}
	}
	// stage 0: z3 5.1 with the pure E-matching configuration (answers quickly either way)
	b0, ok := race([]solverCfg{solvers[3]}, 2)
	if ok {
		return &Result{Obl: o, Status: b0.st, Backend: b0.name, Ms: b0.ms, File: file}
	}
	// stage 1: the default configurations of all back ends
	b1, ok := race([]solverCfg{solvers[0], solvers[2], solvers[1]}, opts.quickS)
	b1.ms += b0.ms
	if ok {
		return &Result{Obl: o, Status: b1.st, Backend: b1.name, Ms: b1.ms, File: file}
	}
	if !cover && b1.st == "sat" && !quantified {
		return &Result{Obl: o, Status: "sat", Backend: b1.name, Ms: b1.ms, File: file, Output: b1.out}
	}
	if cover && b1.st == "unsat" {
		return &Result{Obl: o, Status: "unsat", Backend: b1.name, Ms: b1.ms, File: file, Output: b1.out}
	}
	if cover {
		// covers: "unknown" is acceptable (vacuity not shown); only unsat is a failure
		return &Result{Obl: o, Status: "sat", Backend: b1.name + "(unknown-accepted)", Ms: b1.ms, File: file}
	}
	if opts.quickOnly[oblID(o)] {
		return &Result{Obl: o, Status: b1.st, Backend: b1.name, Ms: b1.ms, File: file, Output: b1.out}
	}
	if opts.fullS <= 0 {
		return &Result{Obl: o, Status: b1.st, Backend: b1.name, Ms: b1.ms, File: file, Output: b1.out}
	}
	// stage 2: the other back ends, longer limit
	b2, ok := race([]solverCfg{solvers[1], solvers[2], solvers[0], solvers[3]}, opts.fullS)
	if ok {
		return &Result{Obl: o, Status: b2.st, Backend: b2.name, Ms: b2.ms + b1.ms, File: file}
	}
	best := b2
	if b1.st == "sat" {
		best = b1
	}
	return &Result{Obl: o, Status: best.st, Backend: best.name, Ms: best.ms + b1.ms, File: file, Output: best.out}
}

func readFile(f string) string {
	b, _ := os.ReadFile(f)
	return string(b)
}

func sortResults(rs []*Result) {
	sort.SliceStable(rs, func(i, j int) bool {
		if rs[i].Obl.Func != rs[j].Obl.Func {
			return rs[i].Obl.Func < rs[j].Obl.Func
		}
		return rs[i].Obl.Name < rs[j].Obl.Name
	})
}

// allocFrameAxioms: a spec function applied to objects that existed before
// a call has the same value before and after the call when every heap it
// reads was changed by that call at most at objects the call allocated.
// (Objects that existed before the call only refer to objects that existed
// before it - the well-formedness assumption every load already makes - so
// the evaluation of the function never reaches a new object.)  The axiom is
// triggered by the post-call term and yields the pre-call term, which is
// what E-matching needs to connect facts known before the call with goals
// stated after it.  Functions whose body quantifies over references are
// excluded (a new object could be a witness).
func (vc *VC) allocFrameAxioms(nfacts int, specs []string) []string {
	var out []string
	eng := vc.eng
	for _, ev := range vc.allocEvents {
		if ev.nfacts > nfacts {
			continue
		}
		for _, n := range specs {
			si := eng.specs[n]
			if si == nil || !si.done || len(si.deps) == 0 || si.refQuant {
				continue
			}
			uses := false
			ok := true
			for _, h := range si.deps {
				if ev.modified[h] {
					ok = false
					break
				}
				if _, t := ev.trans[h]; t {
					uses = true
				}
			}
			if !ok || !uses {
				continue
			}
			var binders, conds, oldArgs, newArgs []string
			for _, h := range si.deps {
				if t, isT := ev.trans[h]; isT {
					oldArgs = append(oldArgs, t[0])
					newArgs = append(newArgs, t[1])
				} else {
					cur, has := ev.cur[h]
					if !has {
						// never materialised up to the event: its initial constant, if declared
						cur = sanitize(h) + "@0"
						if _, isDecl := vc.declared[cur]; !isDecl {
							ok = false
							break
						}
					}
					oldArgs = append(oldArgs, cur)
					newArgs = append(newArgs, cur)
				}
			}
			if !ok {
				continue
			}
			for i, ps := range si.psorts {
				bn := fmt.Sprintf("a!%d", i)
				binders = append(binders, fmt.Sprintf("(%s %s)", bn, ps))
				oldArgs = append(oldArgs, bn)
				newArgs = append(newArgs, bn)
				switch si.ptypes[i].Underlying().(type) {
				case *types.Pointer, *types.Map, *types.Chan, *types.Signature:
					conds = append(conds, app("<=", bn, ev.bound))
				case *types.Slice:
					conds = append(conds, app("<=", sArr(bn), ev.bound))
				case *types.Interface:
					conds = append(conds, app("<=", "(i-val "+bn+")", ev.bound))
				case *types.Struct:
					ok = false
				}
			}
			if !ok || len(binders) == 0 {
				continue
			}
			fnames := []string{n}
			if si.sf.Kind == "rec" {
				fnames = append(fnames, n+"$L")
			}
			for _, fname := range fnames {
				nt := app(fname, newArgs...)
				ot := app(fname, oldArgs...)
				out = append(out, fmt.Sprintf("(forall (%s) (! (=> %s (= %s %s)) :pattern (%s)))", strings.Join(binders, " "), and(conds...), nt, ot, nt))
			}
		}
	}
	return out
}

// splitsOf: the incoming path conditions of the block an obligation sits in
// (reach_B = (or e1 e2 ...)); reach_B implies their disjunction, so proving
// the obligation under each of them proves it.
func (vc *VC) splitsOf(o *Obl) []string {
	g := o.Guard
	topArgs := func(body string) []string {
		var parts []string
		depth, start := 0, 0
		for i := 0; i <= len(body); i++ {
			if i == len(body) || (body[i] == ' ' && depth == 0) {
				if i > start {
					parts = append(parts, body[start:i])
				}
				start = i + 1
				continue
			}
			switch body[i] {
			case '(':
				depth++
			case ')':
				depth--
			}
		}
		return parts
	}
	for step := 0; step < 12; step++ {
		if g == "" || strings.ContainsAny(g, " ()") {
			return nil
		}
		pre := "(= " + g + " "
		rhs := ""
		for _, f := range vc.facts[:o.NFacts] {
			if strings.HasPrefix(f, pre) && strings.HasSuffix(f, ")") {
				rhs = f[len(pre) : len(f)-1]
				break
			}
		}
		switch {
		case rhs == "":
			return nil
		case strings.HasPrefix(rhs, "(or ") && strings.HasSuffix(rhs, ")"):
			return topArgs(rhs[4 : len(rhs)-1])
		case strings.HasPrefix(rhs, "(and ") && strings.HasSuffix(rhs, ")"):
			// an edge: (and reach_pred cond): walk up to the predecessor block
			as := topArgs(rhs[5 : len(rhs)-1])
			g = ""
			for _, a := range as {
				if strings.HasPrefix(a, "reach_") || strings.HasPrefix(a, "edge_") || strings.HasPrefix(a, "latch") {
					g = a
					break
				}
			}
		default:
			g = rhs
		}
	}
	return nil
}
