package main

// Ground-term seeding for E-matching: every opaque spec function that takes
// one int index is applied to every int-typed register as it is defined,
// with the pointer/slice parameters taken from the values in scope.

import (
	"go/types"

	"golang.org/x/tools/go/ssa"
)

// ghostCandidates: values of exactly type t among the parameters (and ghost
// parameters) of the frames on the stack, deduplicated by term.
func (fr *Frame) ghostCandidates(t types.Type, exclude []*Val) []*Val {
	seen := map[string]bool{}
	var out []*Val
	for f := fr; f != nil; f = f.parent {
		vals := append([]*Val{}, f.params...)
		vals = append(vals, f.ghosts...)
		for _, v := range vals {
			if v == nil || v.t == "" || !types.Identical(v.typ, t) {
				continue
			}
			if !seen[v.t] {
				seen[v.t] = true
				out = append(out, v)
			}
		}
	}
	return out
}

func (fr *Frame) topFrame() *Frame {
	f := fr
	for f.parent != nil {
		f = f.parent
	}
	return f
}

// seedAll seeds the int parameters of the verified function.
func (fr *Frame) seedAll() {
	fr.seedConsts(fr.fn, map[*ssa.Function]bool{})
	for _, p := range fr.params {
		fr.seedVal(p)
	}
	for _, g := range fr.ghosts {
		fr.seedVal(g)
	}
}

// seedConsts seeds the small int constants occurring in fn (and its
// uncontracted in-package callees, which will be inlined).
func (fr *Frame) seedConsts(fn *ssa.Function, seen map[*ssa.Function]bool) {
	if fn == nil || seen[fn] || len(seen) > 20 {
		return
	}
	seen[fn] = true
	for _, b := range fn.Blocks {
		for _, in := range b.Instrs {
			for _, op := range in.Operands(nil) {
				if op == nil || *op == nil {
					continue
				}
				switch c := (*op).(type) {
				case *ssa.Const:
					if isPlainInt(c.Type()) {
						if bi, ok := constBig(c); ok && bi.IsInt64() && bi.Int64() >= -1 && bi.Int64() <= 2 {
							fr.seedVal(&Val{t: bigLit(bi), sort: sInt, typ: c.Type()})
						}
					}
				case *ssa.Function:
					if c.Pkg == fr.eng.pkg && fr.eng.cf.Contracts[fr.eng.keyOf(c)] == nil {
						fr.seedConsts(c, seen)
					}
				}
			}
		}
	}
}

func isPlainInt(t types.Type) bool {
	b, ok := t.Underlying().(*types.Basic)
	return ok && b.Kind() == types.Int
}

func (fr *Frame) seedVal(v *Val) {
	if v == nil || v.t == "" || v.sort != sInt || v.typ == nil || !isPlainInt(v.typ) {
		return
	}
	if fr.eng.noWF { // inside specification evaluation
		return
	}
	vc := fr.vc
	if vc.seeded == nil {
		vc.seeded = map[string]bool{}
	}
	for _, name := range sortedKeys(fr.eng.specClosure(vc.specUsed)) {
		si := fr.eng.specs[name]
		if si == nil || !si.done || si.sf.Kind == "macro" || si.sf.Kind == "abstract" {
			continue
		}
		// exactly one int parameter
		ip := -1
		n := 0
		for i, t := range si.ptypes {
			if isPlainInt(t) {
				ip = i
				n++
			}
		}
		if n != 1 {
			continue
		}
		// candidates for the other parameters
		choices := [][]*Val{}
		ok := true
		for i, t := range si.ptypes {
			if i == ip {
				choices = append(choices, []*Val{v})
				continue
			}
			c := fr.ghostCandidates(t, nil)
			if len(c) == 0 || len(c) > 3 {
				ok = false
				break
			}
			choices = append(choices, c)
		}
		if !ok {
			continue
		}
		var rec func(i int, acc []*Val)
		rec = func(i int, acc []*Val) {
			if i == len(choices) {
				term := fr.applySpecTerm(si, acc)
				key := term
				if vc.seeded[key] {
					return
				}
				vc.seeded[key] = true
				switch si.rsort {
				case sInt:
					vc.fact(app("seedI", term))
				case sReal:
					vc.fact(app("seedR", term))
				case sBool:
					vc.fact(app("seedB", term))
				case sSlc:
					vc.fact(app("seedS", term))
				case sIfc:
					vc.fact(app("seedF", term))
				}
				return
			}
			for _, c := range choices[i] {
				rec(i+1, append(append([]*Val{}, acc...), c))
			}
		}
		rec(0, nil)
	}
}

// applySpecTerm builds f(heaps..., args...) in the frame's current state.
func (fr *Frame) applySpecTerm(si *specInfo, args []*Val) string {
	var parts []string
	for _, h := range si.deps {
		if _, ok := fr.vc.heapSort[h]; !ok {
			fr.vc.heapSort[h] = fr.eng.heapSorts[h]
		}
		parts = append(parts, fr.vc.heapGet(fr.st, h))
	}
	for _, a := range args {
		parts = append(parts, fr.scalar(a))
	}
	if len(parts) == 0 {
		return si.sf.Name
	}
	return app(si.sf.Name, parts...)
}

// isNamedVar: the SSA value is bound to a source-level variable (has a
// DebugRef that is not an address), so it is worth seeding.
func (fr *Frame) isNamedVar(v ssa.Value) bool {
	if fr.namedVars == nil {
		fr.namedVars = map[ssa.Value]bool{}
		for _, d := range fr.debugRefs {
			if d.IsAddr {
				continue
			}
			if _, ok := d.Object().(*types.Var); ok {
				fr.namedVars[d.X] = true
			}
		}
	}
	return fr.namedVars[v]
}

// specClosure: the given spec functions and everything they call.
func (e *Engine) specClosure(used map[string]bool) map[string]bool {
	out := map[string]bool{}
	var mark func(n string)
	mark = func(n string) {
		if out[n] {
			return
		}
		out[n] = true
		for _, c := range e.specCallees[n] {
			mark(c)
		}
	}
	for n := range used {
		mark(n)
	}
	return out
}
