package main

import (
	"encoding/json"
	"flag"
	"fmt"
	"os"
	"path/filepath"
	"runtime"
	"strings"
	"time"
)

func usage() {
	fmt.Fprintln(os.Stderr, `usage:
  govc check <PROP> [--tier quick|thorough] [--repo /repo] [--verif /verif]
  govc func <key>... [--keep]      (development: verify single functions verbosely)
  govc list                        (contracts and their properties)`)
	os.Exit(2)
}

func main() {
	if len(os.Args) < 2 {
		usage()
	}
	cmd := os.Args[1]
	fs := flag.NewFlagSet(cmd, flag.ExitOnError)
	repo := fs.String("repo", "/repo", "repository root")
	verif := fs.String("verif", "/verif", "verification root")
	tier := fs.String("tier", "", "quick|thorough")
	keep := fs.Bool("keep", false, "keep SMT files")
	verbose := fs.Bool("v", false, "verbose")
	var pos []string
	args := os.Args[2:]
	for len(args) > 0 {
		if strings.HasPrefix(args[0], "-") {
			break
		}
		pos = append(pos, args[0])
		args = args[1:]
	}
	fs.Parse(args)
	pos = append(pos, fs.Args()...)
	if *tier == "" {
		*tier = os.Getenv("VERIF_TIER")
		if *tier == "" {
			*tier = "quick"
		}
	}
	start := time.Now()
	eng, err := loadEngine(*repo)
	if err != nil {
		fmt.Fprintln(os.Stderr, "load:", err)
		os.Exit(3)
	}
	loadS := time.Since(start).Seconds()
	verifRoot = *verif
	switch cmd {
	case "list":
		for _, k := range eng.cf.Order {
			c := eng.cf.Contracts[k]
			ex := "ok"
			if eng.fnByKey[k] == nil && eng.ifaceMethod(k) == nil {
				ex = "MISSING"
			}
			fmt.Printf("%-50s %-20s %s\n", k, strings.Join(c.Props, ","), ex)
		}
	case "func":
		work, _ := os.MkdirTemp("", "govc")
		if !*keep {
			defer os.RemoveAll(work)
		}
		var vcs []*VC
		for _, k := range pos {
			var vc *VC
			var err error
			if strings.HasPrefix(k, "lemma:") {
				vc, err = eng.verifyLemma(strings.TrimPrefix(k, "lemma:"))
			} else {
				vc, err = eng.verifyFunc(k)
			}
			if err != nil {
				fmt.Fprintln(os.Stderr, err)
				os.Exit(3)
			}
			vcs = append(vcs, vc)
		}
		if len(eng.immutable) > 0 {
			vcs = append(vcs, eng.immutabilityObligations())
		}
		rs := solveAll(vcs, solveOpts{workDir: work, quickS: 4, fullS: 10, parallel: (runtime.NumCPU() + 1) / 2})
		bad := 0
		for _, r := range rs {
			ok := r.Status == "unsat"
			if r.Obl.Kind == "cover" {
				ok = r.Status == "sat" || eng.deadByContract(r)
			}
			mark := "ok  "
			if !ok {
				mark = "FAIL"
				bad++
			}
			if !ok || *verbose {
				fmt.Printf("%s %-8s %-18s %6dms %s :: %s  [%s:%d] %s\n", mark, r.Status, r.Backend, r.Ms, r.Obl.Func, r.Obl.Name, filepath.Base(r.Obl.Pos.Filename), r.Obl.Pos.Line, firstLine(r.Output))
				if !ok && *keep {
					fmt.Printf("     file: %s\n", r.File)
				}
			}
		}
		for _, vc := range vcs {
			for _, a := range sortedKeys(vc.abstr) {
				fmt.Printf("abstracted[%s]: %s\n", vc.fnKey, a)
			}
		}
		fmt.Printf("%d obligations, %d failed, load %.1fs total %.1fs\n", len(rs), bad, loadS, time.Since(start).Seconds())
		if *keep {
			fmt.Println("work dir:", work)
		}
		if bad > 0 {
			os.Exit(1)
		}
	case "replay":
		if len(pos) != 1 {
			usage()
		}
		b, err := os.ReadFile(pos[0])
		if err != nil {
			fmt.Fprintln(os.Stderr, err)
			os.Exit(2)
		}
		var rep map[string]interface{}
		json.Unmarshal(b, &rep)
		fmt.Printf("property:   %v\nobligation: %v\nsource:     %v\nclause:     %v\nstatus:     %v (%v)\n", rep["property"], rep["obligation"], rep["source"], rep["clause"], rep["status"], rep["backend"])
		if rp, ok := rep["replay"].(map[string]interface{}); ok {
			if w, ok := rp["witness"].(string); ok {
				fmt.Println("re-running witness", w, "against", *repo)
				res := runWitness(*verif, *repo, w)
				fmt.Println(res.Output)
				if res.Failed {
					fmt.Println("REPLAY: the failing input still fails on this tree")
					os.Exit(1)
				}
				fmt.Println("REPLAY: the witness passes on this tree")
				return
			}
		}
		fmt.Println("no failing input is attached to this obligation (no-failing-input-found); solver output:")
		fmt.Println(rep["solver_output"])
	case "check":
		if len(pos) != 1 {
			usage()
		}
		os.Exit(runCheck(eng, pos[0], *tier, *verif, loadS, start))
	case "mutant":
		// govc mutant <patch> <PROP>... : which obligations of these properties fail with the patch applied
		if len(pos) < 2 {
			usage()
		}
		known := map[string]KnownFinding{}
		for _, p := range pos[1:] {
			for _, k := range loadKnown(*verif) {
				if (k.Property == p || p == "all") && k.Status != "fixed" {
					known[k.Obligation] = k
				}
			}
			mr := applyMutant(eng, p, pos[0], known)
			st := "MISSED  "
			if mr.Detected {
				st = "DETECTED"
			}
			fmt.Printf("%s %s %s (%.0fs) %s %s\n", st, p, filepath.Base(filepath.Dir(pos[0]))+"/"+filepath.Base(pos[0]), mr.Seconds, strings.Join(mr.Failed, " | "), mr.Error)
		}
	default:
		usage()
	}
}

func firstLine(s string) string {
	s = strings.TrimSpace(s)
	if i := strings.Index(s, "\n"); i >= 0 {
		s = s[:i]
	}
	if len(s) > 160 {
		s = s[:160]
	}
	return s
}
