package main

import (
	"fmt"
	"golang.org/x/tools/go/packages"
	"golang.org/x/tools/go/ssa"
	"golang.org/x/tools/go/ssa/ssautil"
)

func main() {
	cfg := &packages.Config{Mode: packages.LoadAllSyntax, Dir: "/repo", BuildFlags: []string{"-tags=verif"}}
	pkgs, err := packages.Load(cfg, ".")
	if err != nil {
		panic(err)
	}
	prog, spkgs := ssautil.AllPackages(pkgs, ssa.GlobalDebug)
	prog.Build()
	fmt.Println(len(spkgs), spkgs[0].Pkg.Path())
}
