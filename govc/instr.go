package main

import (
	"fmt"
	"go/constant"
	"go/token"
	"go/types"
	"math/big"

	"golang.org/x/tools/go/ssa"
)

func constBig(c *ssa.Const) (*big.Int, bool) {
	if c.Value == nil {
		return big.NewInt(0), true
	}
	v := constant.ToInt(c.Value)
	if v.Kind() != constant.Int {
		return nil, false
	}
	bi, ok := new(big.Int).SetString(v.ExactString(), 10)
	return bi, ok
}

func constString(c *ssa.Const) string {
	if c.Value == nil {
		return ""
	}
	if c.Value.Kind() == constant.String {
		return constant.StringVal(c.Value)
	}
	return c.Value.ExactString()
}

func (fr *Frame) execInstr(in ssa.Instruction) {
	defer func() {
		if v, ok := in.(ssa.Value); ok {
			if x := fr.vals[v]; x != nil && fr.isNamedVar(v) {
				fr.seedVal(x)
			}
		}
	}()
	switch i := in.(type) {
	case *ssa.Alloc:
		fr.vals[i] = fr.doAlloc(i.Type().(*types.Pointer).Elem(), i.Comment, i.Type())
	case *ssa.BinOp:
		fr.vals[i] = fr.binop(i)
	case *ssa.UnOp:
		fr.vals[i] = fr.unop(i)
	case *ssa.Call:
		fr.vals[i] = fr.doCall(i, i.Common())
	case *ssa.ChangeInterface:
		fr.vals[i] = fr.retype(fr.value(i.X), i.Type())
	case *ssa.ChangeType:
		fr.vals[i] = fr.retype(fr.value(i.X), i.Type())
	case *ssa.Convert:
		fr.vals[i] = fr.convert(i)
	case *ssa.Defer:
		var args []*Val
		for _, a := range i.Call.Args {
			args = append(args, fr.value(a))
		}
		var fnv *Val
		if !i.Call.IsInvoke() {
			fnv = fr.value(i.Call.Value)
		} else {
			fnv = fr.value(i.Call.Value)
		}
		fr.st.defers = append(fr.st.defers, &deferRec{guard: fr.reach, call: i, frame: fr, args: args, fnv: fnv})
	case *ssa.RunDefers:
		fr.runDefers()
	case *ssa.Extract:
		t := fr.value(i.Tuple)
		if t.tuple == nil {
			panic(fmt.Sprintf("%s: extract from non-tuple", fr.pos()))
		}
		fr.vals[i] = t.tuple[i.Index]
	case *ssa.Field:
		x := fr.value(i.X)
		st := structOf(i.X.Type())
		fv := x.fields[st.Field(i.Field).Name()]
		if fv == nil {
			panic(fmt.Sprintf("%s: field of non-struct value", fr.pos()))
		}
		fr.vals[i] = fv
	case *ssa.FieldAddr:
		x := fr.value(i.X)
		pt := i.X.Type().Underlying().(*types.Pointer)
		st := structOf(pt.Elem())
		f := st.Field(i.Field)
		base := fr.derefLoc(x, pt.Elem())
		if x.loc == nil {
			fr.oblige("P0", fr.ordName("P0/nil-deref"), app("distinct", x.t, "0"))
		}
		l := base.sub(f.Name(), f.Type())
		fr.vals[i] = &Val{loc: l, typ: i.Type()}
	case *ssa.IndexAddr:
		fr.vals[i] = fr.indexAddr(i)
	case *ssa.Index:
		// only string indexing and array values; abstracted
		fr.vc.abstracted("index on value " + i.X.Type().String())
		fr.vals[i] = fr.havocVal(i.Type(), "idx")
	case *ssa.Lookup:
		fr.vals[i] = fr.lookup(i)
	case *ssa.MakeChan:
		r := fr.newRef("chan")
		fr.vals[i] = &Val{t: r, sort: sInt, typ: i.Type()}
	case *ssa.MakeClosure:
		v := &Val{t: intLit(int64(fr.eng.fnID(i.Fn.(*ssa.Function)))), sort: sInt, typ: i.Type(), clo: i, fn: i.Fn.(*ssa.Function), frame: fr}
		fr.vals[i] = v
		fr.closureCreated(i, v)
	case *ssa.MakeInterface:
		fr.vals[i] = fr.makeInterface(i)
	case *ssa.MakeMap:
		fr.vals[i] = fr.makeMap(i)
	case *ssa.MakeSlice:
		fr.vals[i] = fr.makeSlice(i)
	case *ssa.MapUpdate:
		fr.mapUpdate(i)
	case *ssa.Range:
		fr.vals[i] = fr.rangeStart(i)
	case *ssa.Next:
		fr.vals[i] = fr.rangeNext(i)
	case *ssa.Select:
		if i.Blocking {
			var chans []ssa.Value
			for _, st := range i.States {
				chans = append(chans, st.Chan)
			}
			fr.checkWaitObservesStop(chans, "select")
		}
		fr.vc.abstracted("select statement (nondeterministic choice, received values unconstrained)")
		fr.vals[i] = fr.havocVal(i.Type(), "select")
	case *ssa.Send:
		fr.doSend(i)
	case *ssa.Go:
		fr.doGo(i)
	case *ssa.Slice:
		fr.vals[i] = fr.slice(i)
	case *ssa.Store:
		addr := fr.value(i.Addr)
		pt := i.Addr.Type().Underlying().(*types.Pointer)
		l := fr.derefLoc(addr, pt.Elem())
		if addr.loc == nil {
			fr.oblige("P0", fr.ordName("P0/nil-deref"), app("distinct", addr.t, "0"))
		}
		fr.checkGuarded(l, true)
		fr.store(l, fr.value(i.Val))
	case *ssa.TypeAssert:
		fr.vals[i] = fr.typeAssert(i)
	case *ssa.SliceToArrayPointer:
		fr.vc.abstracted("slice to array pointer")
		fr.vals[i] = fr.havocVal(i.Type(), "s2a")
	default:
		panic(fmt.Sprintf("%s: unsupported instruction %T: %s", fr.pos(), in, in))
	}
}

func (fr *Frame) retype(v *Val, t types.Type) *Val {
	n := *v
	n.typ = t
	return &n
}

func (fr *Frame) doAlloc(elem types.Type, hint string, ptrType types.Type) *Val {
	if hint == "" {
		hint = "new"
	}
	r := fr.newRef("ref_" + hint)
	if arr, ok := elem.Underlying().(*types.Array); ok {
		// array object: elements zeroed
		l := &Loc{kind: locElem, ref: r, idx: "0", root: fr.eng.elemRoot(arr.Elem()), typ: arr.Elem()}
		for _, leaf := range leafLocs(l) {
			name := fr.vc.registerHeap(leaf)
			h := fr.vc.heapGet(fr.st, name)
			z := fr.zero(leaf.typ)
			fr.vc.heapSet(fr.st, name, sto(h, r, fmt.Sprintf("((as const %s) %s)", arrSort(sortOf(leaf.typ)), z.t)))
		}
		return &Val{t: r, sort: sInt, typ: ptrType}
	}
	l := &Loc{kind: locField, ref: r, root: fr.eng.fieldRoot(elem), typ: elem}
	fr.store(l, fr.zero(elem))
	if structOf(elem) != nil {
		return &Val{t: r, sort: sInt, typ: ptrType}
	}
	return &Val{loc: l, typ: ptrType}
}

func (fr *Frame) indexAddr(i *ssa.IndexAddr) *Val {
	x := fr.value(i.X)
	fr.seedVal(fr.value(i.Index)) // indices are worth seeding
	idx := fr.scalar(fr.value(i.Index))
	switch xt := i.X.Type().Underlying().(type) {
	case *types.Slice:
		s := fr.scalar(x)
		fr.oblige("P0", fr.ordName("P0/index"), and(app("<=", "0", idx), app("<", idx, sLen(s))))
		l := &Loc{kind: locElem, ref: sArr(s), idx: app("IDX", sOff(s), idx), root: fr.eng.elemRoot(xt.Elem()), typ: xt.Elem()}
		return &Val{loc: l, typ: i.Type()}
	case *types.Pointer:
		arr := xt.Elem().Underlying().(*types.Array)
		fr.oblige("P0", fr.ordName("P0/index"), and(app("<=", "0", idx), app("<", idx, intLit(arr.Len()))))
		l := &Loc{kind: locElem, ref: fr.scalar(x), idx: idx, root: fr.eng.elemRoot(arr.Elem()), typ: arr.Elem()}
		return &Val{loc: l, typ: i.Type()}
	}
	panic(fmt.Sprintf("%s: IndexAddr on %s", fr.pos(), i.X.Type()))
}

func (fr *Frame) slice(i *ssa.Slice) *Val {
	x := fr.value(i.X)
	var lo, hi, max string
	if i.Low != nil {
		lo = fr.scalar(fr.value(i.Low))
	} else {
		lo = "0"
	}
	switch xt := i.X.Type().Underlying().(type) {
	case *types.Slice:
		s := fr.scalar(x)
		if i.High != nil {
			hi = fr.scalar(fr.value(i.High))
		} else {
			hi = sLen(s)
		}
		capT := sCap(s)
		if i.Max != nil {
			max = fr.scalar(fr.value(i.Max))
			fr.oblige("P0", fr.ordName("P0/slice"), and(app("<=", "0", lo), app("<=", lo, hi), app("<=", hi, max), app("<=", max, capT)))
			capT = max
		} else {
			fr.oblige("P0", fr.ordName("P0/slice"), and(app("<=", "0", lo), app("<=", lo, hi), app("<=", hi, capT)))
		}
		// nil-ness: s[0:0] of nil stays nil (arr 0)
		r := mkSlc(sArr(s), app("+", sOff(s), lo), app("-", hi, lo), app("-", capT, lo))
		c := fr.vc.fresh("slc", sSlc)
		fr.vc.fact(eq(c, r))
		return &Val{t: c, sort: sSlc, typ: i.Type()}
	case *types.Pointer:
		arr := xt.Elem().Underlying().(*types.Array)
		n := intLit(arr.Len())
		if i.High != nil {
			hi = fr.scalar(fr.value(i.High))
		} else {
			hi = n
		}
		fr.oblige("P0", fr.ordName("P0/slice"), and(app("<=", "0", lo), app("<=", lo, hi), app("<=", hi, n)))
		r := mkSlc(fr.scalar(x), lo, app("-", hi, lo), app("-", n, lo))
		if lo == "0" {
			r = mkSlc(fr.scalar(x), "0", hi, n)
		}
		return &Val{t: r, sort: sSlc, typ: i.Type()}
	case *types.Basic: // string
		fr.vc.abstracted("string slicing")
		return fr.havocVal(i.Type(), "strslice")
	}
	panic(fmt.Sprintf("%s: Slice on %s", fr.pos(), i.X.Type()))
}

func (fr *Frame) makeSlice(i *ssa.MakeSlice) *Val {
	ln := fr.scalar(fr.value(i.Len))
	cp := fr.scalar(fr.value(i.Cap))
	fr.oblige("P0", fr.ordName("P0/makeslice"), and(app("<=", "0", ln), app("<=", ln, cp)))
	elem := i.Type().Underlying().(*types.Slice).Elem()
	r := fr.newRef("arr")
	l := &Loc{kind: locElem, ref: r, idx: "0", root: fr.eng.elemRoot(elem), typ: elem}
	for _, leaf := range leafLocs(l) {
		name := fr.vc.registerHeap(leaf)
		h := fr.vc.heapGet(fr.st, name)
		z := fr.zero(leaf.typ)
		fr.vc.heapSet(fr.st, name, sto(h, r, fmt.Sprintf("((as const %s) %s)", arrSort(sortOf(leaf.typ)), z.t)))
	}
	return &Val{t: mkSlc(r, "0", ln, cp), sort: sSlc, typ: i.Type()}
}

func (fr *Frame) makeInterface(i *ssa.MakeInterface) *Val {
	x := fr.value(i.X)
	tag := intLit(int64(fr.eng.typeTag(i.X.Type())))
	switch i.X.Type().Underlying().(type) {
	case *types.Pointer:
		if x.loc != nil && x.t == "" && !(x.loc.kind == locField && len(x.loc.path) == 0) {
			// boxed interior pointer: opaque payload, but remember what it points to
			r := fr.newRef("boxptr")
			return &Val{t: mkIfc(tag, r), sort: sIfc, typ: i.Type(), boxed: x}
		}
		return &Val{t: mkIfc(tag, fr.scalar(x)), sort: sIfc, typ: i.Type(), boxed: x}
	case *types.Basic:
		if x.sort == sInt {
			return &Val{t: mkIfc(tag, x.t), sort: sIfc, typ: i.Type()}
		}
	case *types.Slice:
		r := fr.newRef("box")
		return &Val{t: mkIfc(tag, r), sort: sIfc, typ: i.Type(), boxed: x}
	}
	// boxed non-pointer value: payload is an opaque fresh object
	r := fr.newRef("box")
	return &Val{t: mkIfc(tag, r), sort: sIfc, typ: i.Type()}
}

func (fr *Frame) typeAssert(i *ssa.TypeAssert) *Val {
	x := fr.scalar(fr.value(i.X))
	var okT string
	var res *Val
	if types.IsInterface(i.AssertedType) {
		// interface-to-interface: success iff dynamic type implements; abstracted
		ok := fr.vc.fresh("implements", sBool)
		fr.vc.fact(implies(ok, app("distinct", iTag(x), "0")))
		// if every concrete type known to us with that tag implements, fine: stay abstract
		okT = ok
		res = &Val{t: ite(ok, x, nilIfc), sort: sIfc, typ: i.AssertedType}
	} else {
		tag := intLit(int64(fr.eng.typeTag(i.AssertedType)))
		okT = eq(iTag(x), tag)
		switch i.AssertedType.Underlying().(type) {
		case *types.Pointer:
			res = &Val{t: ite(okT, iVal(x), "0"), sort: sInt, typ: i.AssertedType}
		default:
			res = fr.havocVal(i.AssertedType, "unboxed")
		}
	}
	if !i.CommaOk {
		fr.oblige("P0", fr.ordName("P0/type-assert"), okT)
		return res
	}
	return &Val{typ: i.Type(), tuple: []*Val{res, {t: okT, sort: sBool, typ: types.Typ[types.Bool]}}}
}

func (fr *Frame) convert(i *ssa.Convert) *Val {
	x := fr.value(i.X)
	from, to := i.X.Type().Underlying(), i.Type().Underlying()
	fb, fok := from.(*types.Basic)
	tb, tok := to.(*types.Basic)
	if fok && tok && fb.Info()&types.IsInteger != 0 && tb.Info()&types.IsInteger != 0 {
		flo, fhi, _ := intRange(from)
		tlo, thi, _ := intRange(to)
		if flo.Cmp(tlo) >= 0 && fhi.Cmp(thi) <= 0 {
			return &Val{t: x.t, sort: sInt, typ: i.Type(), mask: x.mask}
		}
		// a constant mask that fits keeps the value
		if x.mask != nil && x.mask.Cmp(thi) <= 0 {
			return &Val{t: x.t, sort: sInt, typ: i.Type(), mask: x.mask}
		}
		width := new(big.Int).Add(new(big.Int).Sub(thi, tlo), big.NewInt(1))
		var t string
		if fr.overflow {
			fr.oblige("P0", fr.ordName("P0/convert"), and(app("<=", bigLit(tlo), x.t), app("<=", x.t, bigLit(thi))))
			t = x.t
		} else if width.BitLen() == 65 { // 64-bit target: a single wrap suffices for 64-bit sources
			if tlo.Sign() == 0 { // to unsigned
				t = ite(app(">=", x.t, "0"), x.t, app("+", x.t, bigLit(width)))
			} else {
				t = ite(app("<=", x.t, bigLit(thi)), x.t, app("-", x.t, bigLit(width)))
			}
		} else {
			m := app("mod", x.t, bigLit(width))
			if tlo.Sign() == 0 {
				t = m
			} else {
				t = ite(app("<=", m, bigLit(thi)), m, app("-", m, bigLit(width)))
			}
		}
		c := fr.vc.fresh("conv", sInt)
		fr.vc.fact(eq(c, t))
		return &Val{t: c, sort: sInt, typ: i.Type()}
	}
	if fok && tok && fb.Info()&types.IsInteger != 0 && tb.Info()&types.IsFloat != 0 {
		return &Val{t: app("to_real", x.t), sort: sReal, typ: i.Type()}
	}
	if fok && tok && fb.Info()&types.IsFloat != 0 && tb.Info()&types.IsFloat != 0 {
		return fr.retype(x, i.Type())
	}
	if fok && tok && fb.Info()&types.IsFloat != 0 && tb.Info()&types.IsInteger != 0 {
		// truncation toward zero; value assumed in range
		c := fr.vc.fresh("ftoi", sInt)
		fr.vc.fact(ite(app(">=", x.t, "0.0"), eq(c, app("to_int", x.t)), eq(c, app("-", app("to_int", app("-", x.t))))))
		fr.vc.assumed["float-to-int conversion assumed in range"] = true
		return &Val{t: c, sort: sInt, typ: i.Type()}
	}
	// string <-> []byte etc.
	fr.vc.abstracted(fmt.Sprintf("conversion %s -> %s (fresh value)", i.X.Type(), i.Type()))
	if sortOf(i.Type()) == sSlc {
		// a fresh array of unknown content
		r := fr.newRef("convarr")
		n := fr.vc.fresh("convlen", sInt)
		fr.vc.fact(and(app("<=", "0", n), app("<=", n, "4611686018427387904")))
		if fb, ok := from.(*types.Basic); ok && fb.Info()&types.IsString != 0 {
			fr.vc.fact(eq(n, app("strlen", x.t)))
		}
		return &Val{t: mkSlc(r, "0", n, n), sort: sSlc, typ: i.Type()}
	}
	v := fr.havocVal(i.Type(), "conv")
	if tb, ok := to.(*types.Basic); ok && tb.Info()&types.IsString != 0 && x.sort == sSlc {
		fr.vc.fact(eq(app("strlen", v.t), sLen(x.t)))
	}
	return v
}

func (fr *Frame) unop(i *ssa.UnOp) *Val {
	x := fr.value(i.X)
	switch i.Op {
	case token.MUL:
		pt := i.X.Type().Underlying().(*types.Pointer)
		l := fr.derefLoc(x, pt.Elem())
		if x.loc == nil {
			fr.oblige("P0", fr.ordName("P0/nil-deref"), app("distinct", x.t, "0"))
		}
		fr.checkGuarded(l, false)
		return fr.load(l)
	case token.NOT:
		return &Val{t: not(x.t), sort: sBool, typ: i.Type()}
	case token.SUB:
		if x.sort == sReal {
			return &Val{t: app("-", x.t), sort: sReal, typ: i.Type()}
		}
		return &Val{t: app("-", x.t), sort: sInt, typ: i.Type()}
	case token.ARROW:
		return fr.doRecv(i, x)
	case token.XOR:
		fr.vc.abstracted("bitwise complement")
		return fr.havocVal(i.Type(), "xor")
	}
	panic(fmt.Sprintf("%s: unop %s", fr.pos(), i.Op))
}

func (fr *Frame) binop(i *ssa.BinOp) *Val {
	x, y := fr.value(i.X), fr.value(i.Y)
	t := i.Type()
	mk := func(term string) *Val {
		c := fr.vc.fresh("t", sortOf(t))
		fr.vc.fact(eq(c, term))
		return &Val{t: c, sort: sortOf(t), typ: t}
	}
	xt := i.X.Type()
	switch i.Op {
	case token.EQL, token.NEQ:
		var e string
		if x.fields != nil {
			e = fr.structEq(x, y)
		} else {
			e = eq(fr.scalar(x), fr.scalar(y))
			if x.sort == sSlc || y.sort == sSlc { // comparison with nil only
				other := x
				if fr.scalar(x) == nilSlc {
					other = y
				}
				e = eq(sArr(fr.scalar(other)), "0")
			}
		}
		if i.Op == token.NEQ {
			e = not(e)
		}
		return &Val{t: e, sort: sBool, typ: t}
	case token.LSS, token.LEQ, token.GTR, token.GEQ:
		op := map[token.Token]string{token.LSS: "<", token.LEQ: "<=", token.GTR: ">", token.GEQ: ">="}[i.Op]
		if x.sort == sReal || y.sort == sReal {
			// floating point comparisons: nondeterministic (sound over-approximation)
			fr.vc.abstracted("float comparison treated as nondeterministic")
			return fr.havocVal(t, "fcmp")
		}
		if b, ok := xt.Underlying().(*types.Basic); ok && b.Info()&types.IsString != 0 {
			fr.vc.abstracted("string ordering")
			return fr.havocVal(t, "scmp")
		}
		return &Val{t: app(op, x.t, y.t), sort: sBool, typ: t}
	}
	if x.sort == sReal || y.sort == sReal {
		fr.vc.abstracted("float arithmetic treated as nondeterministic")
		return fr.havocVal(t, "farith")
	}
	if b, ok := xt.Underlying().(*types.Basic); ok && b.Info()&types.IsString != 0 {
		fr.vc.abstracted("string concatenation")
		return fr.havocVal(t, "sconcat")
	}
	if x.sort == sBool { // & | on bools do not occur; && || are control flow
		switch i.Op {
		case token.AND:
			return &Val{t: and(x.t, y.t), sort: sBool, typ: t}
		case token.OR:
			return &Val{t: or(x.t, y.t), sort: sBool, typ: t}
		}
	}
	lo, hi, _ := intRange(t)
	uns := isUnsigned(t)
	arith := func(term string) *Val {
		if fr.overflow {
			fr.oblige("P0", fr.ordName("P0/overflow"), and(app("<=", bigLit(lo), term), app("<=", term, bigLit(hi))))
		} else {
			fr.vc.assumed["machine arithmetic treated as mathematical in "+fr.key] = true
		}
		return mk(term)
	}
	switch i.Op {
	case token.ADD:
		return arith(app("+", x.t, y.t))
	case token.SUB:
		if uns && !fr.overflow {
			// exact wrap-around for unsigned subtraction
			w := new(big.Int).Add(hi, big.NewInt(1))
			d := app("-", x.t, y.t)
			return mk(ite(app(">=", x.t, y.t), d, app("+", d, bigLit(w))))
		}
		return arith(app("-", x.t, y.t))
	case token.MUL:
		// operands of a multiplication are typically logical indices: seed them
		if _, isC := i.X.(*ssa.Const); isC {
			fr.seedVal(y)
			return arith(app("*", x.t, y.t))
		}
		if _, isC := i.Y.(*ssa.Const); isC {
			fr.seedVal(x)
			return arith(app("*", x.t, y.t))
		}
		fr.seedVal(x)
		if fr.vc.nativeArith {
			return arith(app("*", x.t, y.t))
		}
		// symbolic * symbolic: uninterpreted MUL with monotonicity lemmas (prelude)
		fr.vc.assumed["products of two non-constants are an uninterpreted MUL constrained by monotonicity/sign lemmas of integer multiplication"] = true
		return arith(app("MUL", x.t, y.t))
	case token.QUO:
		fr.oblige("P0", fr.ordName("P0/div-zero"), app("distinct", y.t, "0"))
		if isLiteral(y.t) || fr.vc.nativeArith {
			if uns {
				return mk(app("div", x.t, y.t))
			}
			// Go truncates toward zero
			q := app("div", app("abs", x.t), app("abs", y.t))
			neg := app("distinct", app("<", x.t, "0"), app("<", y.t, "0"))
			return mk(ite(neg, app("-", q), q))
		}
		// symbolic divisor: uninterpreted DIVU on non-negative operands (lemmas in the prelude)
		fr.vc.assumed["division/remainder by a non-constant are uninterpreted DIVU/MODU constrained by the Euclidean-division lemmas"] = true
		if uns {
			return mk(app("DIVU", x.t, y.t))
		}
		{
			q := app("DIVU", app("abs", x.t), app("abs", y.t))
			neg := app("distinct", app("<", x.t, "0"), app("<", y.t, "0"))
			return mk(ite(and(app(">=", x.t, "0"), app(">", y.t, "0")), app("DIVU", x.t, y.t), ite(neg, app("-", q), q)))
		}
	case token.REM:
		fr.oblige("P0", fr.ordName("P0/div-zero"), app("distinct", y.t, "0"))
		if isLiteral(y.t) || fr.vc.nativeArith {
			if uns {
				return mk(app("mod", x.t, y.t))
			}
			r := app("mod", app("abs", x.t), app("abs", y.t))
			return mk(ite(app("<", x.t, "0"), app("-", r), r))
		}
		fr.vc.assumed["division/remainder by a non-constant are uninterpreted DIVU/MODU constrained by the Euclidean-division lemmas"] = true
		if uns {
			return mk(app("MODU", x.t, y.t))
		}
		{
			r := app("MODU", app("abs", x.t), app("abs", y.t))
			return mk(ite(and(app(">=", x.t, "0"), app(">", y.t, "0")), app("MODU", x.t, y.t), ite(app("<", x.t, "0"), app("-", r), r)))
		}
	case token.AND:
		return fr.bitAnd(i, x, y, mk)
	case token.OR:
		if x.mask != nil && y.mask != nil && new(big.Int).And(x.mask, y.mask).Sign() == 0 {
			v := mk(app("+", x.t, y.t))
			v.mask = new(big.Int).Or(x.mask, y.mask)
			fr.eng.bvCert(fmt.Sprintf("or-disjoint %s %s", x.mask.Text(16), y.mask.Text(16)))
			return v
		}
		fr.vc.abstracted("bitwise or of unconfined operands")
		return fr.havocVal(t, "bor")
	case token.SHL, token.SHR:
		yc, ok := i.Y.(*ssa.Const)
		if !ok {
			fr.vc.abstracted("shift by non-constant")
			return fr.havocVal(t, "shift")
		}
		kb, _ := constBig(yc)
		k := int(kb.Int64())
		if k < 0 || k > 63 {
			fr.vc.abstracted("shift amount out of range")
			return fr.havocVal(t, "shift")
		}
		if !uns {
			if i.Op == token.SHR {
				return mk(app("div", x.t, bigLit(pow2[k]))) // floor division == arithmetic shift
			}
			return arith(app("*", x.t, bigLit(pow2[k])))
		}
		if i.Op == token.SHR && x.bfTerm != "" && x.bfLo == k {
			// (x & mask[lo,hi)) >> lo is the bit field itself
			v := &Val{t: x.bfTerm, sort: sInt, typ: t}
			if x.mask != nil {
				v.mask = new(big.Int).Rsh(x.mask, uint(k))
			}
			fr.eng.bvCert(fmt.Sprintf("shr-field %d", k))
			return v
		}
		if i.Op == token.SHR {
			v := mk(app("div", x.t, bigLit(pow2[k])))
			if x.mask != nil {
				v.mask = new(big.Int).Rsh(x.mask, uint(k))
			}
			fr.eng.bvCert(fmt.Sprintf("shr %d", k))
			return v
		}
		w := new(big.Int).Add(hi, big.NewInt(1))
		v := mk(app("mod", app("*", x.t, bigLit(pow2[k])), bigLit(w)))
		if x.mask != nil {
			v.mask = new(big.Int).And(new(big.Int).Lsh(x.mask, uint(k)), hi)
		}
		fr.eng.bvCert(fmt.Sprintf("shl %d", k))
		return v
	case token.AND_NOT, token.XOR:
		fr.vc.abstracted("bit operation " + i.Op.String())
		return fr.havocVal(t, "bitop")
	}
	panic(fmt.Sprintf("%s: binop %s", fr.pos(), i.Op))
}

// bitAnd handles x & C for a contiguous constant mask C: the result is the
// bit field BITS_lo_hi(x) * 2^lo, where BITS_lo_hi is an uninterpreted
// function with a range axiom (and its exact div/mod definition only in
// functions whose contract says `attr bits exact`).
func (fr *Frame) bitAnd(i *ssa.BinOp, x, y *Val, mk func(string) *Val) *Val {
	var cm *big.Int
	var other *Val
	if c, ok := i.X.(*ssa.Const); ok {
		cm, _ = constBig(c)
		other = y
	} else if c, ok := i.Y.(*ssa.Const); ok {
		cm, _ = constBig(c)
		other = x
	}
	if cm != nil && cm.Sign() >= 0 {
		if cm.Sign() == 0 {
			return &Val{t: "0", sort: sInt, typ: i.Type(), mask: big.NewInt(0)}
		}
		if lo, hi, ok := contiguousMask(cm); ok && isUnsigned(i.Type()) {
			b := fr.eng.bitsTerm(other.t, lo, hi)
			term := b
			if lo > 0 {
				term = app("*", b, bigLit(pow2[lo]))
			}
			v := &Val{t: term, sort: sInt, typ: i.Type(), mask: cm, bfTerm: b, bfLo: lo}
			if other.mask != nil {
				v.mask = new(big.Int).And(cm, other.mask)
			}
			fr.eng.bvCert(fmt.Sprintf("and-mask %d %d", lo, hi))
			return v
		}
	}
	fr.vc.abstracted("bitwise and with non-contiguous or non-constant mask")
	v := fr.havocVal(i.Type(), "band")
	if cm != nil && cm.Sign() >= 0 {
		v.mask = cm
		fr.vc.fact(and(app("<=", "0", v.t), app("<=", v.t, bigLit(cm))))
	}
	return v
}

func (fr *Frame) structEq(x, y *Val) string {
	var cs []string
	for _, f := range x.order {
		a, b := x.fields[f], y.fields[f]
		if a.fields != nil {
			cs = append(cs, fr.structEq(a, b))
		} else {
			cs = append(cs, eq(fr.scalar(a), fr.scalar(b)))
		}
	}
	return and(cs...)
}
