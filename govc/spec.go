package main

// Typed translation of contract expressions to SMT terms.

import (
	"go/ast"
	"fmt"
	"go/token"
	"go/types"
	"math/big"
	"strings"
)

type evalCtx struct {
	fr     *Frame
	st     *State
	old    *State
	names  map[string]*Val
	loop   *loopInfo
	callee string // non-empty: identifiers resolve through names and package scope only
	bound  []string
	region *State // state at the last lock acquisition (for old@region)
	head   *State // state at the head of the enclosing loop (for atHead)
	assuming bool // the clause is being assumed (not proved)
}

func (c *evalCtx) child() *evalCtx {
	n := *c
	n.names = map[string]*Val{}
	for k, v := range c.names {
		n.names[k] = v
	}
	return &n
}

var tBool = types.Typ[types.Bool]
var tInt = types.Typ[types.Int]

type realType struct{ types.Type }

var tReal types.Type = types.Typ[types.Float64]

func boolVal(t string) *Val { return &Val{t: t, sort: sBool, typ: tBool} }
func intVal(t string) *Val  { return &Val{t: t, sort: sInt, typ: tInt} }

// evalClause evaluates a boolean clause.
func (fr *Frame) evalClause(cl *Clause, ctx *evalCtx) (t string, err error) {
	defer func() {
		if r := recover(); r != nil {
			if ee, ok := r.(evalErr); ok {
				err = ee
				return
			}
			panic(r)
		}
	}()
	v := fr.eval(cl.E, ctx)
	if v.sort != sBool {
		return "", fmt.Errorf("clause %q is not boolean", cl.Src)
	}
	return v.t, nil
}

func (fr *Frame) evalClauseInt(cl *Clause, ctx *evalCtx) (t string, err error) {
	defer func() {
		if r := recover(); r != nil {
			if ee, ok := r.(evalErr); ok {
				err = ee
				return
			}
			panic(r)
		}
	}()
	v := fr.eval(cl.E, ctx)
	if v.sort != sInt {
		return "", fmt.Errorf("clause %q is not an integer", cl.Src)
	}
	return v.t, nil
}

type evalErr struct{ msg string }

func (e evalErr) Error() string { return e.msg }

func efail(format string, a ...interface{}) { panic(evalErr{fmt.Sprintf(format, a...)}) }

// withState runs f with the frame's current state temporarily replaced.
func (fr *Frame) withState(st *State, f func()) {
	saved := fr.st
	savedNoWF := fr.eng.noWF
	fr.st = st
	fr.eng.noWF = true
	defer func() { fr.st = saved; fr.eng.noWF = savedNoWF }()
	f()
}

func (fr *Frame) eval(e *CExpr, ctx *evalCtx) *Val {
	var out *Val
	fr.withState(ctx.st, func() { out = fr.eval1(e, ctx) })
	return out
}

func parseIntLit(s string) (*big.Int, bool) {
	s = strings.ReplaceAll(s, "_", "")
	bi := new(big.Int)
	if strings.HasPrefix(s, "0x") || strings.HasPrefix(s, "0X") {
		_, ok := bi.SetString(s[2:], 16)
		return bi, ok
	}
	_, ok := bi.SetString(s, 10)
	return bi, ok
}

func (fr *Frame) eval1(e *CExpr, ctx *evalCtx) *Val {
	eng := fr.eng
	switch e.Kind {
	case "int":
		bi, ok := parseIntLit(e.Name)
		if !ok {
			efail("bad integer literal %s", e.Name)
		}
		return &Val{t: bigLit(bi), sort: sInt, typ: types.Typ[types.UntypedInt]}
	case "str":
		return &Val{t: intLit(int64(eng.strID(e.Name))), sort: sInt, typ: types.Typ[types.String]}
	case "ident":
		return fr.evalIdent(e, ctx)
	case "sel":
		// package-qualified or field
		x := fr.eval1(e.Args[0], ctx)
		return fr.evalField(x, e.Name, ctx)
	case "index":
		x := fr.eval1(e.Args[0], ctx)
		i := fr.eval1(e.Args[1], ctx)
		return fr.evalIndex(x, i, ctx)
	case "slice":
		x := fr.eval1(e.Args[0], ctx)
		if x.sort != sSlc {
			efail("slicing a non-slice in %s", e)
		}
		lo, hi := "0", sLen(x.t)
		if e.Args[1] != nil {
			lo = fr.eval1(e.Args[1], ctx).t
		}
		if e.Args[2] != nil {
			hi = fr.eval1(e.Args[2], ctx).t
		}
		return &Val{t: mkSlc(sArr(x.t), app("+", sOff(x.t), lo), app("-", hi, lo), app("-", sCap(x.t), lo)), sort: sSlc, typ: x.typ}
	case "unop":
		x := fr.eval1(e.Args[0], ctx)
		if e.Name == "!" {
			if x.sort != sBool {
				efail("! on non-boolean in %s", e)
			}
			return boolVal(not(x.t))
		}
		return &Val{t: app("-", x.t), sort: x.sort, typ: x.typ}
	case "binop":
		return fr.evalBinop(e, ctx)
	case "quant":
		return fr.evalQuant(e, ctx)
	case "call":
		return fr.evalCall(e, ctx)
	}
	efail("cannot evaluate %s", e)
	return nil
}

func (fr *Frame) evalIdent(e *CExpr, ctx *evalCtx) *Val {
	name := e.Name
	switch name {
	case "true":
		return boolVal("true")
	case "false":
		return boolVal("false")
	case "nil":
		return &Val{t: "0", sort: sInt, typ: types.Typ[types.UntypedNil]}
	}
	if v, ok := ctx.names[name]; ok {
		if v == nil {
			efail("name %s has no value here", name)
		}
		return v
	}
	if ctx.callee == "" {
		if v, ok := fr.resolveLocal(name, ctx.loop); ok {
			if v.loc != nil && v.t == "" && !(v.loc.kind == locField && len(v.loc.path) == 0) {
				return v
			}
			return v
		}
	}
	// ghost globals of the contract file
	if ts, ok := fr.eng.cf.GhostVars[name]; ok {
		t := fr.eng.parseType(ts)
		l := &Loc{kind: locGlobal, root: "G$ghost$" + name, typ: t}
		return fr.load(l)
	}
	if name == "ioEOF" { // the io.EOF sentinel
		return &Val{t: mkIfc("1000000", "999999"), sort: sIfc, typ: fr.eng.parseType("error")}
	}
	// package level
	if obj := fr.eng.tpkg.Scope().Lookup(name); obj != nil {
		switch o := obj.(type) {
		case *types.Const:
			if bi, ok := new(big.Int).SetString(o.Val().ExactString(), 10); ok {
				return &Val{t: bigLit(bi), sort: sInt, typ: o.Type()}
			}
			if b, ok := o.Type().Underlying().(*types.Basic); ok && b.Info()&types.IsString != 0 {
				return &Val{t: intLit(int64(fr.eng.strID(strings.Trim(o.Val().ExactString(), `"`)))), sort: sInt, typ: o.Type()}
			}
			efail("constant %s is not an integer", name)
		case *types.Var:
			l := &Loc{kind: locGlobal, root: "G$" + name, typ: o.Type()}
			return fr.load(l)
		case *types.TypeName:
			return &Val{typ: o.Type(), t: "", sort: "type"}
		}
	}
	efail("unresolved identifier %q", name)
	return nil
}

// evalField reads field `name` of x (pointer to struct or struct value).
func (fr *Frame) evalField(x *Val, name string, ctx *evalCtx) *Val {
	t := x.typ
	if x.fields != nil {
		if f, ok := x.fields[name]; ok {
			return f
		}
		// promoted through embedded pointer
		for _, fn := range x.order {
			fv := x.fields[fn]
			if st := structOf(derefType(fv.typ)); st != nil {
				if hasField(st, name) {
					return fr.evalField(fv, name, ctx)
				}
			}
		}
		efail("no field %s in struct value", name)
	}
	pt, ok := t.Underlying().(*types.Pointer)
	if !ok {
		efail("field %s of non-pointer type %v", name, t)
	}
	st := structOf(pt.Elem())
	if st == nil {
		efail("field %s of pointer to non-struct %v", name, t)
	}
	obj, index, _ := types.LookupFieldOrMethod(pt.Elem(), true, fr.eng.tpkg, name)
	fv, isVar := obj.(*types.Var)
	if !isVar || !fv.IsField() {
		efail("type %v has no field %s", pt.Elem(), name)
	}
	// walk the index path (embedded structs / embedded pointers)
	cur := fr.derefLoc(x, pt.Elem())
	curT := pt.Elem()
	for k, idx := range index {
		s := structOf(curT)
		f := s.Field(idx)
		cur = cur.sub(f.Name(), f.Type())
		curT = f.Type()
		if k < len(index)-1 {
			if p2, ok := curT.Underlying().(*types.Pointer); ok {
				pv := fr.load(cur)
				cur = fr.derefLoc(pv, p2.Elem())
				curT = p2.Elem()
			}
		}
	}
	if isSyncType(curT) {
		// mutexes / condition variables are only ever named, never read
		return &Val{loc: cur, typ: types.NewPointer(curT)}
	}
	return fr.load(cur)
}

func derefType(t types.Type) types.Type {
	if p, ok := t.Underlying().(*types.Pointer); ok {
		return p.Elem()
	}
	return t
}

func hasField(st *types.Struct, name string) bool {
	for i := 0; i < st.NumFields(); i++ {
		if st.Field(i).Name() == name {
			return true
		}
	}
	return false
}

func (fr *Frame) evalIndex(x, i *Val, ctx *evalCtx) *Val {
	switch xt := x.typ.Underlying().(type) {
	case *types.Slice:
		l := &Loc{kind: locElem, ref: sArr(x.t), idx: app("IDX", sOff(x.t), i.t), root: fr.eng.elemRoot(xt.Elem()), typ: xt.Elem()}
		if structOf(xt.Elem()) != nil {
			return &Val{loc: l, typ: types.NewPointer(xt.Elem())}
		}
		return fr.load(l)
	case *types.Map:
		return fr.mapGet(x.typ, x, i)
	}
	efail("indexing value of type %v", x.typ)
	return nil
}

func isNilVal(v *Val) bool {
	b, ok := v.typ.(*types.Basic)
	return ok && b.Kind() == types.UntypedNil
}

func (fr *Frame) evalBinop(e *CExpr, ctx *evalCtx) *Val {
	op := e.Name
	switch op {
	case "&&", "||", "==>", "<==>":
		a := fr.eval1(e.Args[0], ctx)
		b := fr.eval1(e.Args[1], ctx)
		if a.sort != sBool || b.sort != sBool {
			efail("boolean operator %s on non-boolean operands in %s", op, e)
		}
		switch op {
		case "&&":
			return boolVal(and(a.t, b.t))
		case "||":
			return boolVal(or(a.t, b.t))
		case "==>":
			return boolVal(implies(a.t, b.t))
		default:
			return boolVal(eq(a.t, b.t))
		}
	}
	a := fr.eval1(e.Args[0], ctx)
	b := fr.eval1(e.Args[1], ctx)
	// struct elements / struct-valued fields are compared by value
	if a.loc != nil && a.t == "" && structOf(a.loc.typ) != nil && !isSyncType(a.loc.typ) {
		a = fr.load(a.loc)
	}
	if b.loc != nil && b.t == "" && structOf(b.loc.typ) != nil && !isSyncType(b.loc.typ) {
		b = fr.load(b.loc)
	}
	switch op {
	case "==", "!=":
		var t string
		switch {
		case isNilVal(b):
			t = fr.nilTest(a)
		case isNilVal(a):
			t = fr.nilTest(b)
		case a.fields != nil && b.fields != nil:
			t = fr.structEq(a, b)
		default:
			at, bt := fr.scalar(a), fr.scalar(b)
			if a.sort != b.sort && !(a.sort == "" || b.sort == "") {
				if a.sort == sReal && b.sort == sInt {
					bt = app("to_real", bt)
				} else if a.sort == sInt && b.sort == sReal {
					at = app("to_real", at)
				} else {
					efail("comparing %s with %s in %s", a.sort, b.sort, e)
				}
			}
			t = eq(at, bt)
		}
		if op == "!=" {
			t = not(t)
		}
		return boolVal(t)
	case "<", "<=", ">", ">=":
		at, bt := a.t, b.t
		if a.sort == sReal && b.sort == sInt {
			bt = app("to_real", bt)
		} else if a.sort == sInt && b.sort == sReal {
			at = app("to_real", at)
		}
		return boolVal(app(op, at, bt))
	case "+", "-", "*":
		if a.sort != sInt || b.sort != sInt {
			efail("arithmetic on non-integers in %s", e)
		}
		if op == "*" && !isLiteral(a.t) && !isLiteral(b.t) && !fr.vc.nativeArith {
			return &Val{t: app("MUL", a.t, b.t), sort: sInt, typ: arithType(a, b)}
		}
		return &Val{t: app(op, a.t, b.t), sort: sInt, typ: arithType(a, b)}
	case "/":
		if !isLiteral(b.t) && !fr.vc.nativeArith {
			return &Val{t: app("DIVU", a.t, b.t), sort: sInt, typ: arithType(a, b)}
		}
		return &Val{t: app("div", a.t, b.t), sort: sInt, typ: arithType(a, b)}
	case "%":
		if !isLiteral(b.t) && !fr.vc.nativeArith {
			return &Val{t: app("MODU", a.t, b.t), sort: sInt, typ: arithType(a, b)}
		}
		return &Val{t: app("mod", a.t, b.t), sort: sInt, typ: arithType(a, b)}
	}
	efail("unknown operator %s", op)
	return nil
}

func isLiteral(t string) bool {
	if t == "" {
		return false
	}
	for _, c := range t {
		if c < '0' || c > '9' {
			return strings.HasPrefix(t, "(- ") && isLiteral(strings.TrimSuffix(t[3:], ")"))
		}
	}
	return true
}

func arithType(a, b *Val) types.Type {
	if bt, ok := a.typ.(*types.Basic); ok && bt.Info()&types.IsUntyped != 0 {
		return b.typ
	}
	return a.typ
}

func (fr *Frame) nilTest(v *Val) string {
	switch v.sort {
	case sSlc:
		return eq(sArr(v.t), "0")
	case sIfc:
		return eq(iTag(v.t), "0")
	case sInt:
		return eq(v.t, "0")
	}
	if v.loc != nil {
		return "false"
	}
	efail("nil comparison on %v", v.typ)
	return ""
}

func (fr *Frame) sortOfTypeString(ts string) (string, types.Type) {
	switch ts {
	case "real":
		return sReal, tReal
	case "Slice":
		return sSlc, types.NewSlice(types.Typ[types.Byte])
	}
	t := fr.eng.parseType(ts)
	if t == nil {
		efail("unknown type %q", ts)
	}
	s := sortOf(t)
	if s == "" {
		efail("type %q cannot be used in a specification (struct values are not first class)", ts)
	}
	return s, t
}

func (fr *Frame) evalQuant(e *CExpr, ctx *evalCtx) *Val {
	c := ctx.child()
	var decls []string
	var wf []string
	for i, v := range e.Vars {
		s, t := fr.sortOfTypeString(e.Types[i])
		bn := v + "!q"
		c.names[v] = &Val{t: bn, sort: s, typ: t}
		c.bound = append(c.bound, bn)
		decls = append(decls, fmt.Sprintf("(%s %s)", bn, s))
		if _, _, ok := intRange(t); ok && isUnsigned(t) {
			wf = append(wf, app("<=", "0", bn))
		}
		switch t.Underlying().(type) {
		case *types.Pointer, *types.Map:
			// quantification over references ranges over the objects that
			// existed in the pre-state (two-state clauses) / are allocated
			bound := ctx.st.alloc
			if ctx.old != nil {
				bound = ctx.old.alloc
			}
			// (the same range when the clause is assumed: a clause proved for
			// the pre-existing objects says nothing about objects allocated
			// since - assuming it for those made a loop that re-creates a map
			// in every iteration look unchanged)
			wf = append(wf, and(app("<=", "0", bn), app("<=", bn, bound)))
		}
	}
	body := fr.eval1(e.Args[0], c)
	if body.sort != sBool {
		efail("quantifier body is not boolean: %s", e)
	}
	var pats string
	for _, p := range e.Pats {
		var ts []string
		for _, pe := range p {
			ts = append(ts, fr.scalar(fr.eval1(pe, c)))
		}
		pats += " :pattern (" + strings.Join(ts, " ") + ")"
	}
	b := body.t
	if len(wf) > 0 {
		if e.Name == "forall" {
			b = implies(and(wf...), b)
		} else {
			b = and(append(wf, b)...)
		}
	}
	if pats != "" {
		b = "(! " + b + pats + ")"
	}
	return boolVal(fmt.Sprintf("(%s (%s) %s)", e.Name, strings.Join(decls, " "), b))
}

func (fr *Frame) evalCall(e *CExpr, ctx *evalCtx) *Val {
	callee := e.Args[0]
	args := e.Args[1:]
	if callee.Kind == "sel" {
		// method-style application of a spec function: x.f(args) == f(x, args)
		if _, ok := fr.eng.cf.Specs[callee.Name]; ok {
			n := &CExpr{Kind: "call", Args: append([]*CExpr{{Kind: "ident", Name: callee.Name}, callee.Args[0]}, args...)}
			return fr.evalCall(n, ctx)
		}
		efail("unknown method-style spec function %s", callee.Name)
	}
	if callee.Kind != "ident" {
		efail("cannot call %s", callee)
	}
	name := callee.Name
	switch name {
	case "old":
		if ctx.old == nil {
			efail("old() not available here")
		}
		c := *ctx
		c.st = ctx.old
		var out *Val
		fr.withState(ctx.old, func() {
			out = fr.eval1(args[0], &c)
			// a location must be read in the old state, not later
			if out.loc != nil && out.t == "" && !isSyncType(out.loc.typ) {
				out = fr.load(out.loc)
			}
		})
		return out
	case "lockInv": // lockInv(owner.mutex): the conjunction of the lock invariants of that mutex
		x := fr.eval1(args[0], ctx)
		if x.loc == nil {
			efail("lockInv() needs a mutex field")
		}
		spec := fr.eng.lockSpecFor(x.loc)
		if spec == nil {
			efail("lockInv(): no lock-invariant declared for this mutex")
		}
		self := &Val{t: x.loc.ref, sort: sInt, typ: types.NewPointer(fr.eng.parseType(spec.typ))}
		var cs []string
		for _, inv := range spec.inv {
			c := *ctx
			c.names = map[string]*Val{"self": self}
			c.callee = "lock-invariant"
			v := fr.eval1(inv.E, &c)
			cs = append(cs, v.t)
		}
		return boolVal(and(cs...))
	case "atAcquire": // value right after the most recent Lock()/Wait() of the function
		if ctx.region == nil {
			efail("atAcquire() is only available in unlock clauses and lock invariants checked at a release")
		}
		c := *ctx
		c.st = ctx.region
		var out *Val
		fr.withState(ctx.region, func() {
			out = fr.eval1(args[0], &c)
			if out.loc != nil && out.t == "" && !isSyncType(out.loc.typ) {
				out = fr.load(out.loc)
			}
		})
		return out
	case "signalled":
		x := fr.eval1(args[0], ctx)
		if _, ok := fr.vc.heapSort["CV$signalled"]; !ok {
			fr.vc.heapSort["CV$signalled"] = arrSort(sBool)
		}
		return boolVal(sel(fr.vc.heapGet(fr.st, "CV$signalled"), fr.scalar(x)))
	case "before": // before(x, y): object x was allocated before object y (references are allocation-ordered)
		if len(args) != 2 {
			efail("before(x, y) expects two references")
		}
		x := fr.eval1(args[0], ctx)
		y := fr.eval1(args[1], ctx)
		return boolVal(app("<", fr.scalar(x), fr.scalar(y)))
	case "local": // current value of a (reassigned) parameter or local variable at this program point
		if len(args) != 1 || args[0].Kind != "ident" {
			efail("local(name) expects a variable name")
		}
		if ctx.callee != "" {
			efail("local() is only available in the contract of the function being verified")
		}
		// the resolver skips parameters that are never reassigned; for a
		// reassigned one the dominating phi is the current value
		if v, ok := fr.resolveLocalCurrent(args[0].Name, ctx.loop); ok {
			return v
		}
		// declared later in the function (or in a scope not entered on this
		// path): it has its zero value as far as a postcondition is concerned
		for _, d := range fr.topFrame().debugRefs {
			if id, ok := d.Expr.(*ast.Ident); ok && id.Name == args[0].Name {
				if _, isVar := d.Object().(*types.Var); isVar {
					return fr.zero(d.Object().Type())
				}
			}
		}
		efail("local(%s): no such variable in this function", args[0].Name)
		return nil
	case "atHead":
		if ctx.head == nil {
			efail("atHead() is only available in latch clauses")
		}
		c := *ctx
		c.st = ctx.head
		var out *Val
		fr.withState(ctx.head, func() {
			out = fr.eval1(args[0], &c)
			if out.loc != nil && out.t == "" && !isSyncType(out.loc.typ) {
				out = fr.load(out.loc)
			}
		})
		return out
	case "len", "cap":
		x := fr.eval1(args[0], ctx)
		switch x.typ.Underlying().(type) {
		case *types.Map:
			return fr.mapLen(x.typ, x)
		}
		if x.sort != sSlc {
			if b, ok := x.typ.Underlying().(*types.Basic); ok && b.Info()&types.IsString != 0 {
				return intVal(app("strlen", x.t))
			}
			efail("%s of non-slice in %s", name, e)
		}
		if name == "len" {
			return intVal(sLen(x.t))
		}
		return intVal(sCap(x.t))
	case "rank":
		x := fr.eval1(args[0], ctx)
		if x.sort != sSlc {
			efail("rank of non-slice")
		}
		return &Val{t: fr.rankTerm(x.t), sort: sReal, typ: tReal}
	case "arr":
		x := fr.eval1(args[0], ctx)
		return intVal(sArr(x.t))
	case "off":
		x := fr.eval1(args[0], ctx)
		return intVal(sOff(x.t))
	case "ite":
		c := fr.eval1(args[0], ctx)
		a := fr.eval1(args[1], ctx)
		b := fr.eval1(args[2], ctx)
		at, bt := fr.scalar(a), fr.scalar(b)
		r := *a
		if isNilVal(a) {
			r = *b
			at = fr.zero(b.typ).t
		}
		if isNilVal(b) {
			bt = fr.zero(a.typ).t
		}
		r.t = ite(c.t, at, bt)
		r.loc = nil
		return &r
	case "fresh":
		x := fr.eval1(args[0], ctx)
		base := ctx.old
		if base == nil {
			base = fr.entry
		}
		switch x.sort {
		case sSlc:
			return boolVal(app(">", sArr(x.t), base.alloc))
		case sIfc:
			return boolVal(app(">", iVal(x.t), base.alloc))
		}
		return boolVal(app(">", fr.scalar(x), base.alloc))
	case "sinceLoop": // allocated after the enclosing loop was entered
		x := fr.eval1(args[0], ctx)
		if ctx.loop == nil || ctx.loop.entryAlloc == "" {
			efail("sinceLoop() outside a loop invariant")
		}
		switch x.sort {
		case sSlc:
			return boolVal(app(">", sArr(x.t), ctx.loop.entryAlloc))
		}
		return boolVal(app(">", fr.scalar(x), ctx.loop.entryAlloc))
	case "typeIs":
		x := fr.eval1(args[0], ctx)
		if x.sort != sIfc || args[1].Kind == "" {
			efail("typeIs(iface, T)")
		}
		t := fr.eng.parseType(typeArg(args[1]))
		if t == nil {
			efail("typeIs: unknown type %s", args[1])
		}
		return boolVal(eq(iTag(x.t), intLit(int64(fr.eng.typeTag(t)))))
	case "ptrOf": // payload of an interface value, typed as the given pointer type
		x := fr.eval1(args[0], ctx)
		t := fr.eng.parseType(typeArg(args[1]))
		if t == nil || x.sort != sIfc {
			efail("ptrOf(iface, *T)")
		}
		return &Val{t: iVal(x.t), sort: sInt, typ: t}
	case "ifaceOf": // ifaceOf(ptr): the interface value boxing pointer ptr
		x := fr.eval1(args[0], ctx)
		return &Val{t: mkIfc(intLit(int64(fr.eng.typeTag(x.typ))), fr.scalar(x)), sort: sIfc, typ: types.NewInterfaceType(nil, nil)}
	case "closed":
		x := fr.eval1(args[0], ctx)
		if _, ok := fr.vc.heapSort["CH$closed"]; !ok {
			fr.vc.heapSort["CH$closed"] = arrSort(sBool)
		}
		return boolVal(sel(fr.vc.heapGet(fr.st, "CH$closed"), fr.scalar(x)))
	case "held":
		x := fr.eval1(args[0], ctx)
		return boolVal(fr.eng.heldTerm(fr, x))
	case "bits": // bits(x, lo, hi) = (x div 2^lo) mod 2^(hi-lo)
		x := fr.eval1(args[0], ctx)
		lo, ok1 := parseIntLit(args[1].Name)
		hi, ok2 := parseIntLit(args[2].Name)
		if !ok1 || !ok2 || args[1].Kind != "int" || args[2].Kind != "int" {
			efail("bits(x, lo, hi) needs literal bounds")
		}
		return &Val{t: fr.eng.bitsTerm(x.t, int(lo.Int64()), int(hi.Int64())), sort: sInt, typ: tInt}
	case "MUL":
		a := fr.eval1(args[0], ctx)
		b := fr.eval1(args[1], ctx)
		return intVal(app("*", a.t, b.t))
	case "readOnlyMode": // ghost: the ReadOnly option in force for the store under consideration
		fr.vc.declare("ghost$readOnly", sBool)
		return boolVal("ghost$readOnly")
	case "allocTop":
		return intVal(fr.st.alloc)
	case "has": // map membership: has(m, k)
		m := fr.eval1(args[0], ctx)
		k := fr.eval1(args[1], ctx)
		return fr.mapHas(m.typ, m, k)
	case "visited": // visited(k): key already produced by the enclosing map range loop
		k := fr.eval1(args[0], ctx)
		return fr.rangeVisited(ctx, k)
	}
	// conversions
	if t := fr.eng.parseType(name); t != nil && len(args) == 1 {
		x := fr.eval1(args[0], ctx)
		if sortOf(t) == sortOf(x.typ) || x.sort == sortOf(t) {
			r := *x
			r.typ = t
			return &r
		}
		efail("conversion %s(%v) not supported in specifications", name, x.typ)
	}
	if sf, ok := fr.eng.cf.Specs[name]; ok {
		var avs []*Val
		for _, a := range args {
			avs = append(avs, fr.eval1(a, ctx))
		}
		return fr.applySpec(sf, avs, ctx)
	}
	efail("unknown function %q in specification", name)
	return nil
}

func typeArg(e *CExpr) string {
	if e.Kind == "str" {
		return e.Name
	}
	return e.String()
}

func (fr *Frame) rankTerm(s string) string {
	l := &Loc{kind: locElem, ref: sArr(s), idx: "0", root: fr.eng.elemRoot(types.Typ[types.Byte]), typ: types.Typ[types.Byte]}
	name := fr.vc.registerHeap(l)
	h := fr.vc.heapGet(fr.st, name)
	return app("brank", sel(h, sArr(s)), sOff(s), sLen(s))
}

// ---------------------------------------------------------------------
// spec functions

type specInfo struct {
	sf      *SpecFn
	deps    []string // heap names read (transitively)
	psorts  []string
	ptypes  []types.Type
	rsort   string
	rtype   types.Type
	busy    bool
	done    bool
	axioms  []string
	decl    []string
	refQuant bool // the body quantifies over a reference-typed variable
}

func (fr *Frame) specSig(sf *SpecFn) *specInfo {
	eng := fr.eng
	if si, ok := eng.specs[sf.Name]; ok {
		return si
	}
	si := &specInfo{sf: sf}
	eng.specs[sf.Name] = si
	for _, p := range sf.Params {
		s, t := fr.sortOfTypeString(p.Type)
		si.psorts = append(si.psorts, s)
		si.ptypes = append(si.ptypes, t)
	}
	switch sf.Ret {
	case "", "bool":
		si.rsort, si.rtype = sBool, tBool
	default:
		si.rsort, si.rtype = fr.sortOfTypeString(sf.Ret)
	}
	return si
}

func (fr *Frame) applySpec(sf *SpecFn, args []*Val, ctx *evalCtx) *Val {
	si := fr.specSig(sf)
	if len(args) != len(sf.Params) {
		efail("spec function %s expects %d arguments, got %d", sf.Name, len(sf.Params), len(args))
	}
	for i, a := range args {
		if isNilVal(a) {
			args[i] = fr.zero(si.ptypes[i])
		}
	}
	if sf.Kind == "macro" {
		c := &evalCtx{fr: fr, st: ctx.st, old: ctx.old, names: map[string]*Val{}, callee: "spec:" + sf.Name, bound: ctx.bound, loop: ctx.loop}
		for i, p := range sf.Params {
			a := *args[i]
			a.typ = si.ptypes[i]
			c.names[p.Name] = &a
		}
		v := fr.eval1(sf.Body, c)
		r := *v
		if si.rsort != "" && v.sort != si.rsort && !(v.sort == "" && v.loc != nil) {
			if si.rsort == sReal && v.sort == sInt {
				r.t = app("to_real", v.t)
				r.sort = sReal
			} else {
				efail("spec function %s returns %s, body has sort %s", sf.Name, si.rsort, v.sort)
			}
		}
		if v.loc == nil {
			r.typ = si.rtype
		}
		return &r
	}
	fr.prepareSpec(si)
	fr.vc.specUsed[sf.Name] = true
	var parts []string
	for _, h := range si.deps {
		if _, ok := fr.vc.heapSort[h]; !ok {
			fr.vc.heapSort[h] = fr.eng.heapSorts[h]
		}
		parts = append(parts, fr.vc.heapGet(fr.st, h))
	}
	for _, a := range args {
		parts = append(parts, fr.scalar(a))
	}
	fname := sf.Name
	if fr.eng.recLimited[sf.Name] {
		fname += "$L"
	}
	t := fname
	if len(parts) > 0 {
		t = app(fname, parts...)
	}
	return &Val{t: t, sort: si.rsort, typ: si.rtype}
}

// prepareSpec computes heap dependencies, declaration and axioms of an
// opaque / recursive / abstract spec function.
func (fr *Frame) prepareSpec(si *specInfo) {
	if si.done || si.busy {
		return
	}
	si.busy = true
	sf := si.sf
	eng := fr.eng
	if sf.Kind == "abstract" && len(sf.Reads) > 0 {
		deps := map[string]bool{}
		sc := eng.scratchFrame()
		c := &evalCtx{fr: sc, st: sc.st, old: sc.st, names: map[string]*Val{}, callee: "spec:" + sf.Name}
		for i, p := range sf.Params {
			c.names[p.Name] = &Val{t: p.Name + "!p", sort: si.psorts[i], typ: si.ptypes[i]}
		}
		for _, r := range sf.Reads {
			sc.withState(sc.st, func() { sc.eval1(r, c) })
		}
		for h := range sc.vc.declared {
			if strings.HasSuffix(h, "@0") {
				if hn := sc.vc.heapNameOfInit(h); hn != "" {
					deps[hn] = true
					eng.heapSorts[hn] = sc.vc.heapSort[hn]
				}
			}
		}
		si.deps = sortedKeys(deps)
		for k := range sc.vc.specUsed {
			fr.vc.specUsed[k] = true
			eng.specCallees[sf.Name] = append(eng.specCallees[sf.Name], k)
		}
	}
	if sf.Kind != "abstract" {
		// pass 1: discover heap dependencies with a recording scratch frame
		deps := map[string]bool{}
		for iter := 0; iter < 3; iter++ {
			sc := eng.scratchFrame()
			c := &evalCtx{fr: sc, st: sc.st, old: sc.st, names: map[string]*Val{}, callee: "spec:" + sf.Name}
			for i, p := range sf.Params {
				c.names[p.Name] = &Val{t: p.Name + "!p", sort: si.psorts[i], typ: si.ptypes[i]}
			}
			si.deps = sortedKeys(deps)
			func() {
				defer func() {
					if r := recover(); r != nil {
						if ee, ok := r.(evalErr); ok {
							panic(evalErr{"in spec function " + sf.Name + ": " + ee.msg})
						}
						panic(r)
					}
				}()
				sc.withState(sc.st, func() { sc.eval1(sf.Body, c) })
			}()
			n := len(deps)
			for h := range sc.vc.declared {
				if strings.HasSuffix(h, "@0") {
					hn := sc.vc.heapNameOfInit(h)
					if hn != "" {
						deps[hn] = true
						eng.heapSorts[hn] = sc.vc.heapSort[hn]
					}
				}
			}
			if len(deps) == n && iter > 0 {
				break
			}
		}
		si.deps = sortedKeys(deps)
	}
	// declaration
	var dom []string
	for _, h := range si.deps {
		dom = append(dom, eng.heapSorts[h])
	}
	dom = append(dom, si.psorts...)
	si.decl = append(si.decl, fmt.Sprintf("(declare-fun %s (%s) %s)", sf.Name, strings.Join(dom, " "), si.rsort))
	if sf.Kind == "rec" {
		si.decl = append(si.decl, fmt.Sprintf("(declare-fun %s$L (%s) %s)", sf.Name, strings.Join(dom, " "), si.rsort))
	}
	if sf.Kind != "abstract" {
		// pass 2: body over bound heap variables
		sc := eng.scratchFrame()
		var binders, appArgs []string
		for _, h := range si.deps {
			bn := "h!" + sanitize(h)
			sc.vc.heapSort[h] = eng.heapSorts[h]
			sc.st.heaps[h] = bn
			binders = append(binders, fmt.Sprintf("(%s %s)", bn, eng.heapSorts[h]))
			appArgs = append(appArgs, bn)
		}
		c := &evalCtx{fr: sc, st: sc.st, old: sc.st, names: map[string]*Val{}, callee: "spec:" + sf.Name}
		for i, p := range sf.Params {
			bn := p.Name + "!p"
			c.names[p.Name] = &Val{t: bn, sort: si.psorts[i], typ: si.ptypes[i]}
			binders = append(binders, fmt.Sprintf("(%s %s)", bn, si.psorts[i]))
			appArgs = append(appArgs, bn)
		}
		if sf.Kind == "rec" {
			eng.recLimited[sf.Name] = true
		}
		var body *Val
		sc.withState(sc.st, func() { body = sc.eval1(sf.Body, c) })
		delete(eng.recLimited, sf.Name)
		bt := sc.scalar(body)
		if si.rsort == sReal && body.sort == sInt {
			bt = app("to_real", bt)
		}
		lhs := app(sf.Name, appArgs...)
		if len(appArgs) == 0 {
			lhs = sf.Name
			si.axioms = append(si.axioms, eq(lhs, bt))
		} else {
			si.axioms = append(si.axioms, fmt.Sprintf("(forall (%s) (! (= %s %s) :pattern (%s)))", strings.Join(binders, " "), lhs, bt, lhs))
			if sf.Kind == "rec" {
				si.axioms = append(si.axioms, fmt.Sprintf("(forall (%s) (! (= %s %s) :pattern (%s)))", strings.Join(binders, " "), lhs, app(sf.Name+"$L", appArgs...), lhs))
			}
		}
		// specs used by the body
		for k := range sc.vc.specUsed {
			fr.vc.specUsed[k] = true
			eng.specCallees[sf.Name] = append(eng.specCallees[sf.Name], k)
		}
	}
	si.refQuant = sf.Body != nil && eng.quantifiesOverRefs(sf.Body)
	si.busy = false
	si.done = true
}

func (eng *Engine) quantifiesOverRefs(e *CExpr) bool {
	if e == nil {
		return false
	}
	if e.Kind == "quant" {
		for _, ts := range e.Types {
			t := eng.parseType(ts)
			if t == nil {
				return true
			}
			switch t.Underlying().(type) {
			case *types.Basic:
			default:
				return true
			}
		}
	}
	for _, a := range e.Args {
		if eng.quantifiesOverRefs(a) {
			return true
		}
	}
	for _, ps := range e.Pats {
		for _, a := range ps {
			if eng.quantifiesOverRefs(a) {
				return true
			}
		}
	}
	return false
}

func (vc *VC) heapNameOfInit(c string) string {
	for name := range vc.heapSort {
		if sanitize(name)+"@0" == c {
			return name
		}
	}
	return ""
}

func (eng *Engine) parseType(ts string) types.Type {
	if t, ok := eng.typeCache[ts]; ok {
		return t
	}
	tv, err := types.Eval(eng.fset, eng.tpkg, token.NoPos, "(*struct{x "+ts+"})(nil)")
	var t types.Type
	if err == nil && tv.Type != nil {
		if p, ok := tv.Type.(*types.Pointer); ok {
			if s, ok := p.Elem().(*types.Struct); ok && s.NumFields() == 1 {
				t = s.Field(0).Type()
			}
		}
	}
	eng.typeCache[ts] = t
	return t
}

// Built-in arithmetic lemmas about MUL (integer multiplication); instances
// are requested by `loop N: lemma name(args)`.  Each template is a valid
// fact of integer arithmetic (certified with native arithmetic in the selftest).
var arithLemmas = map[string]func(a []string) string{
	"mulsucc": func(a []string) string {
		return eq(app("MUL", app("+", a[0], "1"), a[1]), app("+", app("MUL", a[0], a[1]), a[1]))
	},
	"mulmono": func(a []string) string { // x <= z && y >= 0 ==> x*y <= z*y
		return implies(and(app("<=", a[0], a[1]), app(">=", a[2], "0")), app("<=", app("MUL", a[0], a[2]), app("MUL", a[1], a[2])))
	},
}

func (fr *Frame) evalLemmaInstance(cl *Clause, ctx *evalCtx) (t string, err error) {
	defer func() {
		if r := recover(); r != nil {
			if ee, ok := r.(evalErr); ok {
				err = ee
				return
			}
			panic(r)
		}
	}()
	e := cl.E
	if e.Kind != "call" || e.Args[0].Kind != "ident" {
		return "", fmt.Errorf("lemma clause must be name(args): %s", cl.Src)
	}
	tmpl, ok := arithLemmas[e.Args[0].Name]
	if !ok {
		return "", fmt.Errorf("unknown built-in lemma %s", e.Args[0].Name)
	}
	var args []string
	for _, a := range e.Args[1:] {
		v := fr.eval(a, ctx)
		args = append(args, fr.scalar(v))
	}
	fr.vc.assumed["built-in arithmetic lemma instance: "+e.Args[0].Name] = true
	return tmpl(args), nil
}
