package main

// Symbolic execution of SSA functions with merged states (one state per
// block), loop cut points and contract application.

import (
	"fmt"
	"go/ast"
	"go/token"
	"go/types"
	"sort"
	"strings"

	"golang.org/x/tools/go/ssa"
)

type retInfo struct {
	reach string
	val   *Val // tuple or single or nil
	st    *State
	instr ssa.Instruction
}

type loopInfo struct {
	ord      int
	header   *ssa.BasicBlock
	blocks   map[*ssa.BasicBlock]bool
	lc       *LoopContract
	phiHead  map[*ssa.Phi]*Val
	variant  string
	headSt   *State
	entrySt  *State // state on loop entry (before havoc)
	declared map[string][]string
	entryAlloc string
	regionAtHead bool
}

type edgeInfo struct {
	cond string
	st   *State
}

// Frame is one activation (the verified function or an inlined callee).
type Frame struct {
	eng      *Engine
	vc       *VC
	fn       *ssa.Function
	key      string
	vals     map[ssa.Value]*Val
	st       *State
	reach    string
	depth    int
	contract *Contract
	entry    *State
	params   []*Val
	rets     []retInfo
	parent   *Frame
	top      bool
	edges    map[[2]int]*edgeInfo // (pred index, succ slot) -> info
	loops    map[*ssa.BasicBlock]*loopInfo
	back     map[[2]int]bool // (pred index, succ index) is a back edge
	curInstr ssa.Instruction
	callOrd  map[string]int
	overflow bool
	bindings map[ssa.Value]*Val // free variables of closures
	debugRefs []*ssa.DebugRef
	oblPrefix string
	variant0  string
	invokeMethod *types.Func
	held      []*heldLock
	nAcquire  int
	acquired  map[*lockSpec]bool // locks this (top) frame has taken on some path
	wantCurrent bool // resolveLocal: skip the entry value of parameters
	cbFree    map[string]*Val // free variables of a callback closure bound for applyContract
	nUnlock   int
	relOrd    map[ssa.Instruction]int
	ghosts    []*Val
	namedVars map[ssa.Value]bool
	topNames  map[string]*Val
}

func (fr *Frame) pos() token.Position {
	if fr.curInstr != nil && fr.curInstr.Pos().IsValid() {
		return fr.eng.fset.Position(fr.curInstr.Pos())
	}
	// fall back to nearest earlier instruction with a position
	if fr.curInstr != nil {
		b := fr.curInstr.Block()
		var last token.Pos
		for _, in := range b.Instrs {
			if in == fr.curInstr {
				break
			}
			if in.Pos().IsValid() {
				last = in.Pos()
			}
		}
		if last.IsValid() {
			return fr.eng.fset.Position(last)
		}
	}
	return fr.eng.fset.Position(fr.fn.Pos())
}

// oblige records a proof obligation "reach ==> formula".
func (fr *Frame) oblige(kind, name, formula string) *Obl {
	full := fr.oblPrefix + name
	fr.vc.oblCount[full]++
	if n := fr.vc.oblCount[full]; n > 1 {
		full = fmt.Sprintf("%s~%d", full, n)
	}
	o := &Obl{Name: full, Kind: kind, Guard: fr.reach, Formula: formula, NFacts: len(fr.vc.facts), Pos: fr.pos(), Func: fr.vc.fnKey}
	alwaysKept := kind == "stale" || kind == "inv-entry" || kind == "inv-preserve"
	if fr.vc.onlyKinds != nil && !fr.vc.onlyKinds[kind] && !alwaysKept {
		fr.vc.dropped[kind]++
		return o // generated but not claimed for this function (thin contract)
	}
	if fr.vc.onlyLabels != nil && !alwaysKept {
		keep := false
		for l := range fr.vc.onlyLabels {
			if strings.HasSuffix(name, "#"+l) {
				keep = true
			}
		}
		if !keep {
			fr.vc.dropped[kind]++
			return o
		}
	}
	fr.vc.obls = append(fr.vc.obls, o)
	return o
}

func (fr *Frame) ordName(kind string) string {
	if fr.callOrd == nil {
		fr.callOrd = map[string]int{}
	}
	fr.callOrd[kind]++
	return fmt.Sprintf("%s#%d", kind, fr.callOrd[kind])
}

func (fr *Frame) assume(f string) {
	fr.vc.fact(implies(fr.reach, f))
}

// value returns the symbolic value of an SSA value.
func (fr *Frame) value(v ssa.Value) *Val {
	if x, ok := fr.vals[v]; ok {
		return x
	}
	switch c := v.(type) {
	case *ssa.Const:
		return fr.constVal(c)
	case *ssa.Global:
		l := &Loc{kind: locGlobal, root: "G$" + fr.eng.globalName(c), typ: c.Type().(*types.Pointer).Elem()}
		return &Val{loc: l, typ: c.Type()}
	case *ssa.Function:
		return &Val{t: intLit(int64(fr.eng.fnID(c))), sort: sInt, typ: c.Type(), fn: c}
	case *ssa.FreeVar:
		if fr.bindings != nil {
			if b, ok := fr.bindings[v]; ok {
				return b
			}
		}
		// free variable of a separately verified closure: symbolic
		hv := fr.havocFreeVar(c)
		fr.vals[v] = hv
		return hv
	case *ssa.Builtin:
		return &Val{typ: c.Type()}
	}
	panic(fmt.Sprintf("%s: no value for %s (%T) in %s", fr.pos(), v.Name(), v, fr.fn.Name()))
}

func (fr *Frame) havocFreeVar(c *ssa.FreeVar) *Val {
	// free vars are pointers to captured variables (or values for
	// non-address-taken captures)
	if pt, ok := c.Type().(*types.Pointer); ok {
		r := fr.vc.fresh("fv_"+c.Name(), sInt)
		fr.vc.fact(and(app("<", "0", r), app("<=", r, fr.st.alloc)))
		if structOf(pt.Elem()) != nil {
			return &Val{t: r, sort: sInt, typ: c.Type()}
		}
		return &Val{loc: &Loc{kind: locField, ref: r, root: fr.eng.fieldRoot(pt.Elem()), typ: pt.Elem()}, typ: c.Type()}
	}
	return fr.havocVal(c.Type(), "fv_"+c.Name())
}

func (fr *Frame) constVal(c *ssa.Const) *Val {
	t := c.Type()
	if c.Value == nil { // zero value / nil
		return fr.zero(t)
	}
	switch u := t.Underlying().(type) {
	case *types.Basic:
		switch {
		case u.Info()&types.IsBoolean != 0:
			if c.Value.String() == "true" {
				return &Val{t: "true", sort: sBool, typ: t}
			}
			return &Val{t: "false", sort: sBool, typ: t}
		case u.Info()&types.IsInteger != 0:
			bi, ok := constBig(c)
			if !ok {
				return fr.havocVal(t, "const")
			}
			v := &Val{t: bigLit(bi), sort: sInt, typ: t}
			if bi.Sign() >= 0 {
				v.mask = bi
			}
			return v
		case u.Info()&types.IsString != 0:
			s := constString(c)
			return &Val{t: intLit(int64(fr.eng.strID(s))), sort: sInt, typ: t}
		case u.Info()&types.IsFloat != 0:
			f := c.Float64()
			return &Val{t: fmt.Sprintf("%f", f), sort: sReal, typ: t}
		}
	}
	return fr.havocVal(t, "const")
}

// ---------------------------------------------------------------------

// run executes fn with the given arguments from state st under reach.
// It returns the merged return information (nil if no return is reachable).
func (fr *Frame) run() {
	fn := fr.fn
	if len(fn.Blocks) == 0 {
		panic("run on function without body: " + fn.String())
	}
	fr.edges = map[[2]int]*edgeInfo{}
	fr.loops = map[*ssa.BasicBlock]*loopInfo{}
	fr.back = map[[2]int]bool{}
	for i, p := range fn.Params {
		fr.vals[p] = fr.params[i]
	}
	for _, b := range fn.Blocks {
		for _, in := range b.Instrs {
			if d, ok := in.(*ssa.DebugRef); ok {
				fr.debugRefs = append(fr.debugRefs, d)
			}
		}
	}
	fr.findLoops()
	order := fr.blockOrder()
	reachOf := map[*ssa.BasicBlock]string{}
	for _, b := range order {
		var conds []string
		var sts []*State
		var predIdx []int
		if b.Index == 0 {
			conds = []string{fr.reach}
			sts = []*State{fr.st}
			predIdx = []int{-1}
		} else {
			for i, p := range b.Preds {
				slot := succSlot(p, b, i)
				if fr.back[[2]int{p.Index, b.Index}] {
					continue
				}
				e := fr.edges[[2]int{p.Index, slot}]
				if e == nil || e.cond == "false" {
					continue
				}
				conds = append(conds, e.cond)
				sts = append(sts, e.st)
				predIdx = append(predIdx, i)
			}
		}
		if len(conds) == 0 {
			reachOf[b] = "false"
			continue
		}
		rc := fr.vc.fresh(fmt.Sprintf("reach_%s_b%d", fr.fn.Name(), b.Index), sBool)
		fr.vc.fact(eq(rc, or(conds...)))
		fr.reach = rc
		reachOf[b] = rc
		fr.st = fr.vc.mergeStates(conds, sts)
		// phis
		li := fr.loops[b]
		var phis []*ssa.Phi
		for _, in := range b.Instrs {
			if ph, ok := in.(*ssa.Phi); ok {
				phis = append(phis, ph)
			} else if _, isDbg := in.(*ssa.DebugRef); !isDbg {
				break
			}
		}
		for _, ph := range phis {
			var vs []*Val
			for _, i := range predIdx {
				vs = append(vs, fr.value(ph.Edges[i]))
			}
			fr.vals[ph] = fr.mergeVals(conds, vs, "phi_"+ph.Comment)
			if li == nil {
				fr.seedVal(fr.vals[ph])
			}
		}
		if li != nil {
			fr.curInstr = b.Instrs[0]
			fr.loopHead(li, phis)
		}
		fr.execBlock(b)
	}
}

// succSlot finds which successor slot of p leads to b for the i-th pred entry.
func succSlot(p, b *ssa.BasicBlock, predPos int) int {
	k := 0
	for j := 0; j < predPos; j++ {
		if b.Preds[j] == p {
			k++
		}
	}
	for j, s := range p.Succs {
		if s == b {
			if k == 0 {
				return j
			}
			k--
		}
	}
	return 0
}

func (fr *Frame) findLoops() {
	fn := fr.fn
	var headers []*ssa.BasicBlock
	for _, b := range fn.Blocks {
		for _, s := range b.Succs {
			if s.Dominates(b) {
				fr.back[[2]int{b.Index, s.Index}] = true
				if fr.loops[s] == nil {
					fr.loops[s] = &loopInfo{header: s, blocks: map[*ssa.BasicBlock]bool{s: true}}
					headers = append(headers, s)
				}
				// natural loop body
				li := fr.loops[s]
				var stack []*ssa.BasicBlock
				if !li.blocks[b] {
					li.blocks[b] = true
					stack = append(stack, b)
				}
				for len(stack) > 0 {
					n := stack[len(stack)-1]
					stack = stack[:len(stack)-1]
					for _, p := range n.Preds {
						if !li.blocks[p] {
							li.blocks[p] = true
							stack = append(stack, p)
						}
					}
				}
			}
		}
	}
	// order loops by source position of the header's loop statement
	sort.Slice(headers, func(i, j int) bool { return fr.loopPos(headers[i]) < fr.loopPos(headers[j]) })
	for i, h := range headers {
		li := fr.loops[h]
		li.ord = i + 1
		if fr.contract != nil {
			li.lc = fr.contract.Loops[li.ord]
		}
	}
}

// loopPos approximates the source position of a loop by the smallest
// instruction position inside it.
func (fr *Frame) loopPos(h *ssa.BasicBlock) token.Pos {
	li := fr.loops[h]
	var min token.Pos
	for b := range li.blocks {
		for _, in := range b.Instrs {
			if _, ok := in.(*ssa.DebugRef); ok {
				continue
			}
			if _, ok := in.(*ssa.Phi); ok {
				continue
			}
			if p := in.Pos(); p.IsValid() && (min == 0 || p < min) {
				min = p
			}
		}
	}
	return min
}

// blockOrder is a topological order of the CFG without back edges.
func (fr *Frame) blockOrder() []*ssa.BasicBlock {
	fn := fr.fn
	seen := map[*ssa.BasicBlock]bool{}
	var post []*ssa.BasicBlock
	var dfs func(b *ssa.BasicBlock)
	dfs = func(b *ssa.BasicBlock) {
		seen[b] = true
		for _, s := range b.Succs {
			if fr.back[[2]int{b.Index, s.Index}] || seen[s] {
				continue
			}
			dfs(s)
		}
		post = append(post, b)
	}
	dfs(fn.Blocks[0])
	// recover blocks are not reachable from the entry; ignore them
	out := make([]*ssa.BasicBlock, 0, len(post))
	for i := len(post) - 1; i >= 0; i-- {
		out = append(out, post[i])
	}
	return out
}

// ---------------------------------------------------------------------
// loops

func (fr *Frame) loopName(li *loopInfo) string { return fmt.Sprintf("loop%d", li.ord) }

func (fr *Frame) loopHead(li *loopInfo, phis []*ssa.Phi) {
	name := fr.loopName(li)
	if li.lc == nil {
		o := fr.oblige("loop", name+"/has-invariant", "false")
		o.Static = fmt.Sprintf("fail:loop %d of %s has no invariant in the contract file", li.ord, fr.key)
		// continue with havoc and no invariant so later obligations are still generated
		li.lc = &LoopContract{Ord: li.ord}
	}
	li.entrySt = fr.st.clone()
	li.entryAlloc = fr.st.alloc
	// 1. invariants hold on entry (an earlier invariant may be used to prove a later one)
	var provenEntry []string
	for i, inv := range li.lc.Invariants {
		t, err := fr.evalClause(inv, &evalCtx{fr: fr, st: fr.st, old: fr.entry, loop: li})
		if err != nil {
			fr.stale(name+"/"+clauseName("inv", i, inv), err)
			continue
		}
		fr.oblige("inv-entry", name+"/"+clauseName("inv", i, inv)+"/entry", implies(and(provenEntry...), t))
		if ta, err := fr.evalClause(inv, &evalCtx{fr: fr, st: fr.st, old: fr.entry, loop: li, assuming: true}); err == nil {
			provenEntry = append(provenEntry, ta)
		}
	}
	// 2. havoc loop-modified state
	li.phiHead = map[*ssa.Phi]*Val{}
	for _, ph := range phis {
		hv := fr.havocVal(ph.Type(), "loop_"+ph.Comment)
		// values that are interior pointers cannot be phis in the subset
		fr.vals[ph] = hv
		li.phiHead[ph] = hv
	}
	ws := fr.eng.writeSetOfBlocks(fr, li.blocks)
	// loop-level modifies: objects existing at loop entry that are not
	// designated keep their contents (checked again at every latch)
	li.declared = nil
	if len(li.lc.Modifies) > 0 {
		li.declared = map[string][]string{}
		for _, m := range li.lc.Modifies {
			if m.Src == "nothing" {
				continue
			}
			if m.Src == "*" {
				li.declared = nil
				break
			}
			locs, err := fr.evalModifies(m, &evalCtx{fr: fr, st: fr.st, old: fr.entry, loop: li})
			if err != nil {
				fr.stale(name+"/modifies", err)
				continue
			}
			for _, l := range locs {
				for _, leaf := range leafLocs(l) {
					n := fr.vc.registerHeap(leaf)
					li.declared[n] = append(li.declared[n], leaf.ref)
				}
			}
		}
	}
	// address-taken local variables of this function that the loop assigns
	// are part of the loop's state like any phi: designated implicitly
	if li.declared != nil {
		for b := range li.blocks {
			for _, in := range b.Instrs {
				st, ok := in.(*ssa.Store)
				if !ok {
					continue
				}
				a := st.Addr
				for {
					if fa, ok := a.(*ssa.FieldAddr); ok {
						a = fa.X
						continue
					}
					break
				}
				al, ok := a.(*ssa.Alloc)
				if !ok || al.Parent() != fr.fn || al.Comment == "" || al.Comment == "complit" || al.Comment == "new" || al.Comment == "slicelit" || al.Comment == "makeslice" || al.Comment == "varargs" {
					continue
				}
				v, has := fr.vals[al]
				if !has {
					continue
				}
				elem := al.Type().(*types.Pointer).Elem()
				if _, isArr := elem.Underlying().(*types.Array); isArr {
					continue
				}
				var l *Loc
				if v.loc != nil {
					l = v.loc
				} else {
					l = &Loc{kind: locField, ref: v.t, root: fr.eng.fieldRoot(elem), typ: elem}
				}
				for _, leaf := range leafLocs(l) {
					n := fr.vc.registerHeap(leaf)
					dup := false
					for _, r := range li.declared[n] {
						if r == leaf.ref {
							dup = true
						}
					}
					if !dup {
						li.declared[n] = append(li.declared[n], leaf.ref)
					}
				}
			}
		}
	}
	starAll := false
	for _, m := range li.lc.Modifies {
		if m.Src == "*" {
			starAll = true
		}
	}
	if (ws.all || starAll) && li.declared == nil {
		fr.vc.abstracted("loop " + name + " calls unknown code: all heaps havocked")
		for _, h := range sortedKeys(fr.vc.heapSort) {
			fr.vc.heapHavoc(fr.st, h)
		}
	}
	if li.declared != nil {
		// the declared locations are havocked even if no store to them is visible
		// statically (calls through interfaces); everything else is checked at the latch
		for h := range li.declared {
			if _, ok := ws.heaps[h]; !ok {
				ws.heaps[h] = fr.vc.heapSort[h]
			}
		}
		ws.all = false
	}
	li.entryAlloc = fr.st.alloc
	if ws.allocs || ws.all {
		// (the watermark first: the havocked heaps may hold objects allocated by earlier iterations)
		a := fr.vc.fresh("alloc", sInt)
		fr.vc.fact(app("<=", fr.st.alloc, a))
		fr.st.alloc = a
	}
	for _, h := range sortedKeys(ws.heaps) {
		if _, ok := fr.vc.heapSort[h]; !ok {
			fr.vc.heapSort[h] = ws.heaps[h]
		}
		old := fr.vc.heapGet(fr.st, h)
		nw := fr.vc.heapHavoc(fr.st, h)
		if li.declared != nil && !ws.all && !strings.HasPrefix(h, "G$") && !wholeDeclared(li, h) && !strings.HasPrefix(h, "RV$") {
			// (RV$: the visited set of the range loop's iterator grows in every
			// iteration - framing it made visited() empty at every loop head)
			fr.vc.fact(loopFrameFormula(li, h, nw, old))
		}
	}
	li.headSt = fr.st.clone()
	if fr.parent == nil && fr.eng.loopHasWait(li) {
		// every iteration starts right after an acquire (Lock before the loop or
		// Wait inside it): the loop head is the acquire point for atAcquire();
		// the latch checks that nothing guarded changed since the last acquire
		li.regionAtHead = true
		rs := fr.st.clone()
		rs.region = nil
		fr.st.region = rs
	}
	for _, ph := range phis {
		fr.seedVal(fr.vals[ph])
		// range-over-slice index: starts at -1 and is only incremented (SSA shape checked)
		if ph.Comment == "rangeindex" && isRangeIndexPhi(ph) {
			fr.assume(app("<=", "(- 1)", fr.vals[ph].t))
		}
	}
	// 3. assume invariants
	fr.assumeGlobalInvariants()
	for i, inv := range li.lc.Invariants {
		t, err := fr.evalClause(inv, &evalCtx{fr: fr, st: fr.st, old: fr.entry, loop: li, assuming: true})
		if err != nil {
			_ = i
			continue
		}
		fr.assume(t)
	}
	for _, lm := range li.lc.Lemmas {
		t, err := fr.evalLemmaInstance(lm, &evalCtx{fr: fr, st: fr.st, old: fr.entry, loop: li})
		if err != nil {
			fr.stale(name+"/lemma", err)
			continue
		}
		fr.vc.fact(t)
	}
	if li.lc.Decreases != nil {
		t, err := fr.evalClauseInt(li.lc.Decreases, &evalCtx{fr: fr, st: fr.st, old: fr.entry, loop: li})
		if err != nil {
			fr.stale(name+"/decreases", err)
		} else {
			c := fr.vc.fresh("variant", sInt)
			fr.vc.fact(eq(c, t))
			li.variant = c
		}
	}
	// cover: the loop head is reachable under the invariants (vacuity guard);
	// inlined callees may legitimately be called with arguments that skip the loop
	if fr.parent == nil {
	fr.vc.covers = append(fr.vc.covers, &Obl{Name: fr.oblPrefix + name + "/cover", Kind: "cover", Guard: fr.reach, Formula: "true", NFacts: len(fr.vc.facts), Pos: fr.pos(), Func: fr.vc.fnKey})
	}
}

// loopLatch is called when taking a back edge from block b (pred position i of header).
func (fr *Frame) loopLatch(li *loopInfo, from *ssa.BasicBlock) {
	name := fr.loopName(li)
	h := li.header
	predPos := -1
	for i, p := range h.Preds {
		if p == from {
			predPos = i
		}
	}
	saved := map[*ssa.Phi]*Val{}
	for _, in := range h.Instrs {
		if ph, ok := in.(*ssa.Phi); ok {
			saved[ph] = fr.vals[ph]
		}
	}
	// evaluate latch values first (parallel assignment)
	newVals := map[*ssa.Phi]*Val{}
	for ph := range saved {
		newVals[ph] = fr.value(ph.Edges[predPos])
	}
	for ph, v := range newVals {
		fr.vals[ph] = v
	}
	var provenLatch []string
	for i, inv := range li.lc.Invariants {
		t, err := fr.evalClause(inv, &evalCtx{fr: fr, st: fr.st, old: fr.entry, loop: li})
		if err != nil {
			continue
		}
		fr.oblige("inv-preserve", name+"/"+clauseName("inv", i, inv)+"/preserve", implies(and(provenLatch...), t))
		if ta, err := fr.evalClause(inv, &evalCtx{fr: fr, st: fr.st, old: fr.entry, loop: li, assuming: true}); err == nil {
			provenLatch = append(provenLatch, ta)
		}
	}
	if li.lc.Decreases != nil && li.variant != "" {
		t, err := fr.evalClauseInt(li.lc.Decreases, &evalCtx{fr: fr, st: fr.st, old: fr.entry, loop: li})
		if err == nil {
			fr.oblige("decreases", name+"/decreases", and(app("<=", "0", li.variant), app("<", t, li.variant)))
		}
	}
	if li.regionAtHead && fr.st.region != nil {
		for _, h := range fr.topFrame().held {
			for _, hn := range sortedKeys(h.spec.heapSet) {
				cur := sel(fr.vc.heapGet(fr.st, hn), h.ref)
				at := sel(fr.vc.heapGet(fr.st.region, hn), h.ref)
				if cur != at {
					fr.oblige("region", name+"/since-acquire#"+strings.TrimPrefix(hn, "F$"), eq(cur, at))
				}
			}
		}
	}
	for i, la := range li.lc.Latch {
		t, err := fr.evalClause(la, &evalCtx{fr: fr, st: fr.st, old: fr.entry, loop: li, head: li.headSt})
		if err != nil {
			fr.stale(name+"/"+clauseName("latch", i, la), err)
			continue
		}
		fr.oblige("inv-preserve", name+"/"+clauseName("latch", i, la), t)
	}
	if li.declared != nil {
		all := map[string]bool{}
		for h := range li.headSt.heaps {
			all[h] = true
		}
		for h := range fr.st.heaps {
			all[h] = true
		}
		for _, h := range sortedKeys(all) {
			cur := fr.vc.heapGet(fr.st, h)
			head, okH := li.headSt.heaps[h]
			if !okH {
				head = fr.vc.heapInit(h)
			}
			if cur == head || strings.HasPrefix(h, "G$") || strings.HasPrefix(h, "RV$") || strings.HasPrefix(h, "CV$") || strings.HasPrefix(h, "LK$") || wholeDeclared(li, h) {
				continue
			}
			fr.oblige("loop-frame", name+"/frame#"+h, loopFrameFormula(li, h, cur, head))
		}
	}
	for ph, v := range saved {
		fr.vals[ph] = v
	}
}

// isRangeIndexPhi: phi [entry: -1, latch: phi + 1].
func isRangeIndexPhi(ph *ssa.Phi) bool {
	// every edge is either the initial -1 or this phi plus one (a loop body
	// with several ways back to the head has one step edge per latch)
	okInit, okStep := false, false
	for _, e := range ph.Edges {
		switch x := e.(type) {
		case *ssa.Const:
			if bi, ok := constBig(x); ok && bi.Int64() == -1 {
				okInit = true
				continue
			}
			return false
		case *ssa.BinOp:
			if x.Op == token.ADD && x.X == ssa.Value(ph) {
				if c, ok := x.Y.(*ssa.Const); ok {
					if bi, ok := constBig(c); ok && bi.Int64() == 1 {
						okStep = true
						continue
					}
				}
			}
			return false
		default:
			return false
		}
	}
	return okInit && okStep
}

func wholeDeclared(li *loopInfo, h string) bool {
	for _, r := range li.declared[h] {
		if r == "*" {
			return true
		}
	}
	return false
}

// loopFrameFormula: objects that existed at loop entry and are not designated
// by the loop's modifies clauses have the same slot in heaps a and b.
func loopFrameFormula(li *loopInfo, h, a, b string) string {
	var excl []string
	for _, r := range li.declared[h] {
		excl = append(excl, app("distinct", "r!", r))
	}
	cond := and(append([]string{app("<=", "0", "r!"), app("<=", "r!", li.entryAlloc)}, excl...)...)
	return fmt.Sprintf("(forall ((r! Int)) (! (=> %s (= (select %s r!) (select %s r!))) :pattern ((select %s r!))))", cond, a, b, a)
}

// stale records a contract clause that no longer resolves against the code.
func (fr *Frame) stale(name string, err error) {
	o := fr.oblige("stale", name, "false")
	o.Static = "fail:STALE-CONTRACT " + err.Error()
}

// ---------------------------------------------------------------------

func (fr *Frame) execBlock(b *ssa.BasicBlock) {
	for _, in := range b.Instrs {
		fr.curInstr = in
		fr.vc.curReach = fr.reach
		switch i := in.(type) {
		case *ssa.Phi, *ssa.DebugRef:
			continue
		case *ssa.If:
			c := fr.scalar(fr.value(i.Cond))
			fr.setEdge(b, 0, and(fr.reach, c))
			fr.setEdge(b, 1, and(fr.reach, not(c)))
		case *ssa.Jump:
			fr.setEdge(b, 0, fr.reach)
		case *ssa.Return:
			fr.doReturn(i)
		case *ssa.Panic:
			fr.oblige("P0", fr.ordName("P0/panic"), "false")
		default:
			fr.execInstr(in)
		}
	}
}

func (fr *Frame) setEdge(b *ssa.BasicBlock, slot int, cond string) {
	s := b.Succs[slot]
	if fr.back[[2]int{b.Index, s.Index}] {
		saved := fr.reach
		c := fr.vc.fresh("latch", sBool)
		fr.vc.fact(eq(c, cond))
		fr.reach = c
		fr.loopLatch(fr.loops[s], b)
		fr.reach = saved
		return
	}
	c := cond
	if strings.HasPrefix(cond, "(") {
		c = fr.vc.fresh(fmt.Sprintf("edge_b%d_%d", b.Index, slot), sBool)
		fr.vc.fact(eq(c, cond))
	}
	fr.edges[[2]int{b.Index, slot}] = &edgeInfo{cond: c, st: fr.st.clone()}
}

func (fr *Frame) doReturn(r *ssa.Return) {
	var v *Val
	switch len(r.Results) {
	case 0:
	case 1:
		v = fr.value(r.Results[0])
	default:
		v = &Val{typ: fr.fn.Signature.Results()}
		for _, x := range r.Results {
			v.tuple = append(v.tuple, fr.value(x))
		}
	}
	fr.rets = append(fr.rets, retInfo{reach: fr.reach, val: v, st: fr.st.clone(), instr: r})
}

// resolveLocal finds the SSA value bound to a source variable name as seen
// from block `at` (nil = anywhere).  Phis of the loop header win, then
// parameters, then the closest dominating DebugRef.
// resolveLocalCurrent: like resolveLocal, but a parameter that the body
// reassigns resolves to its current value (dominating phi / latest
// definition) instead of its entry value.
func (fr *Frame) resolveLocalCurrent(name string, li *loopInfo) (*Val, bool) {
	fr.wantCurrent = true
	v, ok := fr.resolveLocal(name, li)
	fr.wantCurrent = false
	if ok {
		return v, true
	}
	return fr.resolveLocal(name, li)
}

func (fr *Frame) resolveLocal(name string, li *loopInfo) (*Val, bool) {
	if li != nil {
		for _, in := range li.header.Instrs {
			if ph, ok := in.(*ssa.Phi); ok && ph.Comment == name {
				if v, ok := fr.vals[ph]; ok {
					return v, true
				}
			}
		}
	}
	// an address-taken parameter lives in its own cell: its current value is what the code sees
	for i, p := range fr.fn.Params {
		if p.Name() == name && !fr.wantCurrent {
			for _, d := range fr.debugRefs {
				if d.IsAddr {
					if id, ok := d.Expr.(*ast.Ident); ok && id.Name == name && d.Object() == p.Object() {
						if v, has := fr.vals[d.X]; has {
							if v.loc != nil {
								return fr.load(v.loc), true
							}
							if pt, ok := d.X.Type().(*types.Pointer); ok {
								return fr.load(fr.derefLoc(v, pt.Elem())), true
							}
						}
					}
				}
			}
			return fr.params[i], true
		}
	}
	for _, fv := range fr.fn.FreeVars {
		if fv.Name() == name {
			v := fr.value(fv)
			if v.loc != nil {
				return fr.load(v.loc), true
			}
			return v, true
		}
	}
	// a phi for that variable in a dominating block (closest dominator wins)
	{
		var atB *ssa.BasicBlock
		if li != nil {
			atB = li.header
		} else if fr.curInstr != nil {
			atB = fr.curInstr.Block()
		}
		var bestPhi *ssa.Phi
		for _, b := range fr.fn.Blocks {
			if atB == nil || !(b.Dominates(atB)) || (li != nil && b == atB) {
				continue
			}
			for _, in := range b.Instrs {
				if ph, ok := in.(*ssa.Phi); ok && ph.Comment == name {
					if _, has := fr.vals[ph]; has {
						if bestPhi == nil || bestPhi.Block().Dominates(b) {
							bestPhi = ph
						}
					}
				}
			}
		}
		if bestPhi != nil {
			// a later plain definition may still shadow it: handled by DebugRefs below only if positioned after the phi
			pv := fr.vals[bestPhi]
			var later *ssa.DebugRef
			for _, d := range fr.debugRefs {
				if id, ok := d.Expr.(*ast.Ident); ok && id.Name == name && !d.IsAddr {
					if _, has := fr.vals[d.X]; has && d.Block() != bestPhi.Block() && bestPhi.Block().Dominates(d.Block()) && (atB == nil || d.Block().Dominates(atB)) && !(li != nil && d.Block() == atB) {
						if later == nil || d.Pos() > later.Pos() {
							later = d
						}
					}
				}
			}
			if later == nil {
				return pv, true
			}
		}
	}
	// DebugRefs: pick the reference that is latest in program order among
	// those already executed (have a value) and whose block dominates the
	// current one (or the loop header).
	var at *ssa.BasicBlock
	if li != nil {
		at = li.header
	} else if fr.curInstr != nil {
		at = fr.curInstr.Block()
	}
	var best *ssa.DebugRef
	for _, d := range fr.debugRefs {
		id, ok := d.Expr.(*ast.Ident)
		if !ok || id.Name != name {
			continue
		}
		if _, isVar := d.Object().(*types.Var); !isVar {
			continue
		}
		if _, has := fr.vals[d.X]; !has {
			if _, isC := d.X.(*ssa.Const); !isC {
				continue
			}
		}
		if at != nil && !(d.Block() == at || d.Block().Dominates(at)) {
			continue
		}
		if li != nil && d.Block() == at {
			// references inside the header itself are after the cut point
			continue
		}
		if best == nil || d.Pos() > best.Pos() {
			best = d
		}
	}
	if best != nil {
		v := fr.value(best.X)
		if best.IsAddr {
			if v.loc != nil {
				return fr.load(v.loc), true
			}
			if pt, ok := best.X.Type().(*types.Pointer); ok {
				return fr.load(fr.derefLoc(v, pt.Elem())), true
			}
		}
		return v, true
	}
	return nil, false
}

// derefLoc converts a pointer value into the location it points to.
func (fr *Frame) derefLoc(p *Val, elem types.Type) *Loc {
	if p.loc != nil {
		return p.loc
	}
	return &Loc{kind: locField, ref: p.t, root: fr.eng.fieldRoot(elem), typ: elem}
}
