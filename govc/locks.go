package main

// Lock regions (monitor invariants).
//
//   //@ guarded collection.m: stackDirtyTop, stackDirtyMid, ...
//   //@ lock-invariant collection.m: <expr over self>
//
// Lock():   the guarded fields of the owner are havocked (other threads may
//           have changed them while the lock was free) and the invariant is
//           assumed; the state is remembered for atAcquire(e).
// Unlock(): the invariant is an obligation; so are the `unlock n:` clauses
//           of the function's contract (n = ordinal of the Unlock site).
// Wait():   Unlock followed by Lock.
// Every access to a guarded field of an object that existed at entry is an
// obligation held(owner.m) (guarded-by discipline).

import (
	"fmt"
	"go/types"
	"strings"

	"golang.org/x/tools/go/ssa"
)

type lockSpec struct {
	key     string   // "collection.m"
	typ     string   // "collection"
	mutex   string   // "m"
	fields  []string // guarded field names
	inv     []*Clause
	heapSet map[string]bool // heap names of guarded fields
}

type heldLock struct {
	spec *lockSpec
	ref  string
	loc  *Loc
}

func (e *Engine) lockHeap(fr *Frame, l *Loc) string {
	name := "LK$" + l.heapName()
	if _, ok := fr.vc.heapSort[name]; !ok {
		fr.vc.heapSort[name] = arrSort(sBool)
	}
	return name
}

func (e *Engine) lockSpecFor(l *Loc) *lockSpec {
	if l == nil || l.kind != locField || len(l.path) == 0 {
		return nil
	}
	key := strings.TrimPrefix(l.root, "F$") + "." + strings.Join(l.path, ".")
	return e.locks[key]
}

func (e *Engine) initLocks() error {
	e.locks = map[string]*lockSpec{}
	e.guardedBy = map[string]*lockSpec{}
	for _, g := range e.cf.Guarded {
		ls := e.locks[g.Key]
		if ls == nil {
			parts := strings.SplitN(g.Key, ".", 2)
			if len(parts) != 2 {
				return fmt.Errorf("bad lock key %q", g.Key)
			}
			ls = &lockSpec{key: g.Key, typ: parts[0], mutex: parts[1], heapSet: map[string]bool{}}
			e.locks[g.Key] = ls
		}
		ls.fields = append(ls.fields, g.Fields...)
		ls.inv = append(ls.inv, g.Inv...)
		t := e.parseType(ls.typ)
		if t == nil || structOf(t) == nil {
			return fmt.Errorf("guarded %s: unknown struct type", g.Key)
		}
		for _, f := range g.Fields {
			obj, _, _ := types.LookupFieldOrMethod(t, true, e.tpkg, f)
			fv, ok := obj.(*types.Var)
			if !ok {
				return fmt.Errorf("guarded %s: no field %s", g.Key, f)
			}
			base := &Loc{kind: locField, root: e.fieldRoot(t), path: []string{f}, typ: fv.Type()}
			for _, leaf := range leafLocs(base) {
				ls.heapSet[leaf.heapName()] = true
				e.guardedBy[leaf.heapName()] = ls
				e.heapSorts[leaf.heapName()] = arrSort(sortOf(leaf.typ))
			}
		}
	}
	return nil
}

func (fr *Frame) heldList() *[]*heldLock { return &fr.topFrame().held }

func (e *Engine) lockOp(fr *Frame, m *Val, acquire bool) {
	if m.loc == nil || m.loc.kind != locField {
		fr.vc.abstracted("lock operation on a mutex that is not a struct field")
		return
	}
	name := e.lockHeap(fr, m.loc)
	h := fr.vc.heapGet(fr.st, name)
	spec := e.lockSpecFor(m.loc)
	if acquire {
		fr.vc.heapSet(fr.st, name, sto(h, m.loc.ref, "true"))
		if spec != nil {
			e.acquire(fr, spec, m.loc)
		}
	} else {
		fr.oblige("lock", fr.ordName("unlock/held"), sel(h, m.loc.ref))
		if spec != nil {
			e.release(fr, spec, m.loc, true)
		}
		h = fr.vc.heapGet(fr.st, name)
		fr.vc.heapSet(fr.st, name, sto(h, m.loc.ref, "false"))
	}
}

// acquire: havoc the guarded fields of the owner, assume the invariant.
func (e *Engine) acquire(fr *Frame, spec *lockSpec, l *Loc) {
	vc := fr.vc
	t := e.parseType(spec.typ)
	for _, f := range spec.fields {
		obj, _, _ := types.LookupFieldOrMethod(t, true, e.tpkg, f)
		fv := obj.(*types.Var)
		base := &Loc{kind: locField, ref: l.ref, root: e.fieldRoot(t), path: []string{f}, typ: fv.Type()}
		for _, leaf := range leafLocs(base) {
			if sortOf(leaf.typ) == "" {
				continue
			}
			hn := vc.registerHeap(leaf)
			hh := vc.heapGet(fr.st, hn)
			nv := fr.havocVal(leaf.typ, "acq_"+f)
			vc.heapSet(fr.st, hn, sto(hh, l.ref, nv.t))
		}
	}
	self := &Val{t: l.ref, sort: sInt, typ: types.NewPointer(t)}
	fr.assumeGlobalInvariants()
	for _, inv := range spec.inv {
		tt, err := fr.evalClause(inv, &evalCtx{fr: fr, st: fr.st, old: fr.st, names: map[string]*Val{"self": self}, callee: "lock-invariant", assuming: true})
		if err != nil {
			fr.stale("lock-invariant "+spec.key, err)
			continue
		}
		fr.assume(tt)
	}
	// a new region starts: nothing has been signalled in it yet
	if _, ok := vc.heapSort["CV$signalled"]; !ok {
		vc.heapSort["CV$signalled"] = arrSort(sBool)
	}
	vc.heapSet(fr.st, "CV$signalled", "((as const (Array Int Bool)) false)")
	top := fr.topFrame()
	top.held = append(top.held, &heldLock{spec: spec, ref: l.ref, loc: l})
	if top.acquired == nil {
		top.acquired = map[*lockSpec]bool{}
	}
	top.acquired[spec] = true
	rs := fr.st.clone()
	rs.region = nil
	fr.st.region = rs
	top.nAcquire++
}

// release: the invariant (and the unlock clauses of the contract) must hold.
func (e *Engine) release(fr *Frame, spec *lockSpec, l *Loc, isUnlock bool) {
	t := e.parseType(spec.typ)
	self := &Val{t: l.ref, sort: sInt, typ: types.NewPointer(t)}
	top := fr.topFrame()
	top.nUnlock++
	n := top.releaseOrdinal(fr)
	kind := "unlock"
	if !isUnlock {
		kind = "wait"
	}
	for i, inv := range spec.inv {
		tt, err := fr.evalClause(inv, &evalCtx{fr: fr, st: fr.st, old: fr.entry, names: map[string]*Val{"self": self}, callee: "lock-invariant", region: fr.st.region})
		if err != nil {
			fr.stale("lock-invariant "+spec.key, err)
			continue
		}
		fr.oblige("lock-inv", fmt.Sprintf("%s#%d/%s", kind, n, clauseName("inv", i, inv)), tt)
	}
	if top.contract != nil {
		if !isUnlock && fr == top {
			// `wait: expr` - holds whenever this function blocks on a condition variable
			for i, wc := range top.contract.Waits {
				tt, err := fr.evalClause(wc, &evalCtx{fr: fr, st: fr.st, old: fr.entry, names: top.topNames, region: fr.st.region})
				if err != nil {
					fr.stale(fmt.Sprintf("wait#%d/%s", n, clauseName("blocks", i, wc)), err)
					continue
				}
				fr.oblige("region", fmt.Sprintf("wait#%d/%s", n, clauseName("blocks", i, wc)), tt)
			}
		}
		for i, uc := range top.contract.Unlocks {
			if uc.Ord != n {
				continue
			}
			tt, err := fr.evalClause(uc.C, &evalCtx{fr: fr, st: fr.st, old: fr.entry, names: top.topNames, region: fr.st.region})
			if err != nil {
				fr.stale(fmt.Sprintf("%s#%d/%s", kind, n, clauseName("region", i, uc.C)), err)
				continue
			}
			fr.oblige("region", fmt.Sprintf("%s#%d/%s", kind, n, clauseName("region", i, uc.C)), tt)
		}
	}
	// drop from the held list
	for i := len(top.held) - 1; i >= 0; i-- {
		if top.held[i].ref == l.ref && top.held[i].spec == spec {
			top.held = append(top.held[:i], top.held[i+1:]...)
			break
		}
	}
}

// condWait: Unlock + Lock on every lock currently held by the frame.
func (e *Engine) condWait(fr *Frame) {
	top := fr.topFrame()
	hs := append([]*heldLock{}, top.held...)
	if len(hs) == 0 {
		fr.vc.abstracted("Cond.Wait with no modelled lock held")
	}
	for _, h := range hs {
		e.release(fr, h.spec, h.loc, false)
		e.acquire(fr, h.spec, h.loc)
	}
}

func (e *Engine) heldTerm(fr *Frame, m *Val) string {
	if m.loc == nil {
		efail("held() needs a mutex field")
	}
	name := e.lockHeap(fr, m.loc)
	return sel(fr.vc.heapGet(fr.st, name), m.loc.ref)
}

func isSyncType(t types.Type) bool {
	n, ok := t.(*types.Named)
	if !ok || n.Obj().Pkg() == nil {
		return false
	}
	return n.Obj().Pkg().Path() == "sync"
}

// guardedCheck: accesses to guarded fields need the lock, except on objects
// created by the function itself (construction).
func (e *Engine) guardedCheck(fr *Frame, l *Loc, write bool) {
	if l == nil || l.kind != locField || len(e.guardedBy) == 0 {
		return
	}
	for _, leaf := range leafLocs(l) {
		spec := e.guardedBy[leaf.heapName()]
		if spec == nil {
			continue
		}
		t := e.parseType(spec.typ)
		ml := &Loc{kind: locField, ref: l.ref, root: e.fieldRoot(t), path: strings.Split(spec.mutex, "."), typ: nil}
		name := "LK$" + ml.heapName()
		if _, ok := fr.vc.heapSort[name]; !ok {
			fr.vc.heapSort[name] = arrSort(sBool)
		}
		held := sel(fr.vc.heapGet(fr.st, name), l.ref)
		what := "read"
		if write {
			what = "write"
		}
		fieldName := strings.TrimPrefix(leaf.heapName(), e.fieldRoot(t)+".")
		fr.oblige("guarded", fr.ordName("guarded/"+what+" "+spec.typ+"."+fieldName), or(held, app(">", l.ref, fr.topFrame().entry.alloc)))
		return
	}
}

var _ = ssa.Value(nil)

// condSignal records that the condition variable was signalled in this region.
func (e *Engine) condSignal(fr *Frame, c *Val) {
	name := "CV$signalled"
	if _, ok := fr.vc.heapSort[name]; !ok {
		fr.vc.heapSort[name] = arrSort(sBool)
	}
	h := fr.vc.heapGet(fr.st, name)
	fr.vc.heapSet(fr.st, name, sto(h, fr.scalar(c), "true"))
}

// releaseOrdinal: the source-order ordinal (1-based) of the Unlock()/Wait()
// call site being executed among those of the verified function; 0 for
// sites inside inlined callees.
func (top *Frame) releaseOrdinal(fr *Frame) int {
	if fr != top || fr.curInstr == nil {
		return 0
	}
	if top.relOrd == nil {
		top.relOrd = map[ssa.Instruction]int{}
		var sites []ssa.Instruction
		for _, b := range top.fn.Blocks {
			for _, in := range b.Instrs {
				var cc *ssa.CallCommon
				switch x := in.(type) {
				case *ssa.Call:
					cc = x.Common()
				case *ssa.Defer:
					cc = x.Common()
				}
				if cc == nil {
					continue
				}
				if f := cc.StaticCallee(); f != nil {
					switch top.eng.externalName(f) {
					case "(*sync.Mutex).Unlock", "(*sync.RWMutex).Unlock", "(*sync.RWMutex).RUnlock", "(*sync.Cond).Wait":
						sites = append(sites, in)
					}
				}
			}
		}
		for i := 0; i < len(sites); i++ {
			for j := i + 1; j < len(sites); j++ {
				if sites[j].Pos() < sites[i].Pos() {
					sites[i], sites[j] = sites[j], sites[i]
				}
			}
		}
		for i, s := range sites {
			top.relOrd[s] = i + 1
		}
	}
	return top.relOrd[fr.curInstr]
}

// loopHasWait: the loop body calls (*sync.Cond).Wait.
func (e *Engine) loopHasWait(li *loopInfo) bool {
	for b := range li.blocks {
		for _, in := range b.Instrs {
			if c, ok := in.(*ssa.Call); ok {
				if f := c.Common().StaticCallee(); f != nil && e.externalName(f) == "(*sync.Cond).Wait" {
					return true
				}
			}
		}
	}
	return false
}
