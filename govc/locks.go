package main

// Lock ghost state.  A mutex is a struct-valued field; its ghost "held" flag
// lives in the heap LK$<root.path> : owner ref -> Bool.

import (
	"go/types"
)

func (e *Engine) lockHeap(fr *Frame, l *Loc) string {
	name := "LK$" + l.heapName()
	if _, ok := fr.vc.heapSort[name]; !ok {
		fr.vc.heapSort[name] = arrSort(sBool)
	}
	return name
}

func (e *Engine) lockOp(fr *Frame, m *Val, acquire bool) {
	if m.loc == nil || m.loc.kind != locField {
		fr.vc.abstracted("lock operation on a mutex that is not a struct field")
		return
	}
	name := e.lockHeap(fr, m.loc)
	h := fr.vc.heapGet(fr.st, name)
	if acquire {
		fr.vc.heapSet(fr.st, name, sto(h, m.loc.ref, "true"))
		e.onAcquire(fr, m.loc)
	} else {
		fr.oblige("lock", fr.ordName("unlock/held"), sel(h, m.loc.ref))
		e.onRelease(fr, m.loc)
		h = fr.vc.heapGet(fr.st, name)
		fr.vc.heapSet(fr.st, name, sto(h, m.loc.ref, "false"))
	}
}

func (e *Engine) heldTerm(fr *Frame, m *Val) string {
	if m.loc == nil {
		efail("held() needs a mutex field")
	}
	name := e.lockHeap(fr, m.loc)
	return sel(fr.vc.heapGet(fr.st, name), m.loc.ref)
}

func isSyncType(t types.Type) bool {
	n, ok := t.(*types.Named)
	if !ok || n.Obj().Pkg() == nil {
		return false
	}
	return n.Obj().Pkg().Path() == "sync"
}

// region hooks (monitor invariants); filled in by regions.go
func (e *Engine) onAcquire(fr *Frame, l *Loc) {}
func (e *Engine) onRelease(fr *Frame, l *Loc) {}

func (e *Engine) guardedCheck(fr *Frame, l *Loc, write bool) {}
