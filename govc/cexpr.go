package main

// Contract expression language: lexer + Pratt parser producing CExpr trees.
//
//   e ::= forall x T, y T :: e | exists x T :: e | e ==> e | e <==> e
//       | e || e | e && e | e (==|!=|<|<=|>|>=) e | e (+|-) e | e (*|/|%) e
//       | !e | -e | e.f | e[i] | e[i:j] | f(e, ...) | ident | int | (e)

import (
	"fmt"
	"strings"
	"unicode"
)

type CExpr struct {
	Kind string // ident int call sel index slice unop binop quant
	Name string // ident name, field name, operator, quantifier kind
	Args []*CExpr
	// quant
	Vars  []string
	Types []string
	Pats  [][]*CExpr
	pos   int
}

func (e *CExpr) String() string {
	switch e.Kind {
	case "ident", "int":
		return e.Name
	case "call":
		var a []string
		for _, x := range e.Args[1:] {
			a = append(a, x.String())
		}
		return e.Args[0].String() + "(" + strings.Join(a, ", ") + ")"
	case "sel":
		return e.Args[0].String() + "." + e.Name
	case "index":
		return e.Args[0].String() + "[" + e.Args[1].String() + "]"
	case "slice":
		s := e.Args[0].String() + "["
		if e.Args[1] != nil {
			s += e.Args[1].String()
		}
		s += ":"
		if e.Args[2] != nil {
			s += e.Args[2].String()
		}
		return s + "]"
	case "unop":
		return e.Name + e.Args[0].String()
	case "binop":
		return "(" + e.Args[0].String() + " " + e.Name + " " + e.Args[1].String() + ")"
	case "quant":
		var vs []string
		for i := range e.Vars {
			vs = append(vs, e.Vars[i]+" "+e.Types[i])
		}
		return "(" + e.Name + " " + strings.Join(vs, ", ") + " :: " + e.Args[0].String() + ")"
	}
	return "?"
}

type tok struct {
	kind string // ident int op eof
	s    string
	pos  int
}

func lexC(src string) ([]tok, error) {
	var out []tok
	i := 0
	ops := []string{"<==>", "==>", "::", "==", "!=", "<=", ">=", "&&", "||", "<", ">", "+", "-", "*", "/", "%", "!", "(", ")", "[", "]", ",", ".", ":", "{", "}"}
	for i < len(src) {
		c := rune(src[i])
		if unicode.IsSpace(c) {
			i++
			continue
		}
		if unicode.IsLetter(c) || c == '_' || c == '$' {
			j := i
			for j < len(src) && (unicode.IsLetter(rune(src[j])) || unicode.IsDigit(rune(src[j])) || src[j] == '_' || src[j] == '$') {
				j++
			}
			out = append(out, tok{"ident", src[i:j], i})
			i = j
			continue
		}
		if unicode.IsDigit(c) {
			j := i
			for j < len(src) && (unicode.IsDigit(rune(src[j])) || src[j] == 'x' || (src[j] >= 'a' && src[j] <= 'f') || (src[j] >= 'A' && src[j] <= 'F')) {
				j++
			}
			out = append(out, tok{"int", src[i:j], i})
			i = j
			continue
		}
		if c == '"' {
			j := i + 1
			for j < len(src) && src[j] != '"' {
				j++
			}
			if j >= len(src) {
				return nil, fmt.Errorf("unterminated string at %d", i)
			}
			out = append(out, tok{"str", src[i+1 : j], i})
			i = j + 1
			continue
		}
		matched := false
		for _, op := range ops {
			if strings.HasPrefix(src[i:], op) {
				out = append(out, tok{"op", op, i})
				i += len(op)
				matched = true
				break
			}
		}
		if !matched {
			return nil, fmt.Errorf("unexpected character %q at %d in %q", c, i, src)
		}
	}
	out = append(out, tok{"eof", "", len(src)})
	return out, nil
}

type cparser struct {
	toks []tok
	p    int
	src  string
}

func parseCExpr(src string) (*CExpr, error) {
	toks, err := lexC(src)
	if err != nil {
		return nil, err
	}
	ps := &cparser{toks: toks, src: src}
	e, err := ps.expr(0)
	if err != nil {
		return nil, err
	}
	if ps.peek().kind != "eof" {
		return nil, fmt.Errorf("trailing input at %d (%q) in %q", ps.peek().pos, ps.peek().s, src)
	}
	return e, nil
}

func (ps *cparser) peek() tok { return ps.toks[ps.p] }
func (ps *cparser) next() tok { t := ps.toks[ps.p]; ps.p++; return t }
func (ps *cparser) isOp(s string) bool {
	t := ps.peek()
	return t.kind == "op" && t.s == s
}
func (ps *cparser) expect(s string) error {
	if !ps.isOp(s) {
		return fmt.Errorf("expected %q at %d (got %q) in %q", s, ps.peek().pos, ps.peek().s, ps.src)
	}
	ps.p++
	return nil
}

var binPrec = map[string]int{
	"<==>": 1, "==>": 2, "||": 3, "&&": 4,
	"==": 5, "!=": 5, "<": 5, "<=": 5, ">": 5, ">=": 5,
	"+": 6, "-": 6, "*": 7, "/": 7, "%": 7,
}

func (ps *cparser) expr(minPrec int) (*CExpr, error) {
	t := ps.peek()
	if t.kind == "ident" && (t.s == "forall" || t.s == "exists") {
		return ps.quant()
	}
	lhs, err := ps.unary()
	if err != nil {
		return nil, err
	}
	for {
		t := ps.peek()
		if t.kind != "op" {
			break
		}
		prec, ok := binPrec[t.s]
		if !ok || prec < minPrec {
			break
		}
		ps.next()
		var rhs *CExpr
		if t.s == "==>" { // right assoc
			rhs, err = ps.expr(prec)
		} else {
			rhs, err = ps.expr(prec + 1)
		}
		if err != nil {
			return nil, err
		}
		lhs = &CExpr{Kind: "binop", Name: t.s, Args: []*CExpr{lhs, rhs}, pos: t.pos}
	}
	return lhs, nil
}

func (ps *cparser) quant() (*CExpr, error) {
	q := ps.next()
	e := &CExpr{Kind: "quant", Name: q.s, pos: q.pos}
	for {
		v := ps.next()
		if v.kind != "ident" {
			return nil, fmt.Errorf("quantifier variable expected at %d in %q", v.pos, ps.src)
		}
		// type: tokens until ',' or '::'
		var ty []string
		for !(ps.isOp(",") || ps.isOp("::")) {
			if ps.peek().kind == "eof" {
				return nil, fmt.Errorf("unterminated quantifier in %q", ps.src)
			}
			ty = append(ty, ps.next().s)
		}
		e.Vars = append(e.Vars, v.s)
		e.Types = append(e.Types, strings.Join(ty, ""))
		if ps.isOp(",") {
			ps.next()
			continue
		}
		break
	}
	if err := ps.expect("::"); err != nil {
		return nil, err
	}
	for ps.isOp("{") { // {:pattern e, e}
		ps.next()
		if err := ps.expect(":"); err != nil {
			return nil, err
		}
		ps.next() // "pattern"
		var pat []*CExpr
		for {
			p, err := ps.expr(0)
			if err != nil {
				return nil, err
			}
			pat = append(pat, p)
			if ps.isOp(",") {
				ps.next()
				continue
			}
			break
		}
		if err := ps.expect("}"); err != nil {
			return nil, err
		}
		e.Pats = append(e.Pats, pat)
	}
	body, err := ps.expr(0)
	if err != nil {
		return nil, err
	}
	e.Args = []*CExpr{body}
	return e, nil
}

func (ps *cparser) unary() (*CExpr, error) {
	t := ps.peek()
	if t.kind == "op" && (t.s == "!" || t.s == "-") {
		ps.next()
		a, err := ps.unary()
		if err != nil {
			return nil, err
		}
		return &CExpr{Kind: "unop", Name: t.s, Args: []*CExpr{a}, pos: t.pos}, nil
	}
	return ps.postfix()
}

func (ps *cparser) postfix() (*CExpr, error) {
	e, err := ps.primary()
	if err != nil {
		return nil, err
	}
	for {
		switch {
		case ps.isOp("."):
			ps.next()
			f := ps.next()
			if f.kind != "ident" {
				return nil, fmt.Errorf("field name expected at %d in %q", f.pos, ps.src)
			}
			e = &CExpr{Kind: "sel", Name: f.s, Args: []*CExpr{e}, pos: f.pos}
		case ps.isOp("("):
			ps.next()
			args := []*CExpr{e}
			for !ps.isOp(")") {
				a, err := ps.expr(0)
				if err != nil {
					return nil, err
				}
				args = append(args, a)
				if ps.isOp(",") {
					ps.next()
				} else {
					break
				}
			}
			if err := ps.expect(")"); err != nil {
				return nil, err
			}
			e = &CExpr{Kind: "call", Args: args, pos: e.pos}
		case ps.isOp("["):
			ps.next()
			var lo, hi *CExpr
			if !ps.isOp(":") {
				lo, err = ps.expr(0)
				if err != nil {
					return nil, err
				}
			}
			if ps.isOp(":") {
				ps.next()
				if !ps.isOp("]") {
					hi, err = ps.expr(0)
					if err != nil {
						return nil, err
					}
				}
				if err := ps.expect("]"); err != nil {
					return nil, err
				}
				e = &CExpr{Kind: "slice", Args: []*CExpr{e, lo, hi}, pos: e.pos}
			} else {
				if err := ps.expect("]"); err != nil {
					return nil, err
				}
				e = &CExpr{Kind: "index", Args: []*CExpr{e, lo}, pos: e.pos}
			}
		default:
			return e, nil
		}
	}
}

func (ps *cparser) primary() (*CExpr, error) {
	t := ps.next()
	switch t.kind {
	case "ident":
		return &CExpr{Kind: "ident", Name: t.s, pos: t.pos}, nil
	case "int":
		return &CExpr{Kind: "int", Name: t.s, pos: t.pos}, nil
	case "str":
		return &CExpr{Kind: "str", Name: t.s, pos: t.pos}, nil
	case "op":
		if t.s == "(" {
			e, err := ps.expr(0)
			if err != nil {
				return nil, err
			}
			if err := ps.expect(")"); err != nil {
				return nil, err
			}
			return e, nil
		}
	}
	return nil, fmt.Errorf("unexpected token %q at %d in %q", t.s, t.pos, ps.src)
}
