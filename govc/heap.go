package main

// Values, locations, heaps and symbolic state.

import (
	"fmt"
	"go/token"
	"go/types"
	"math/big"
	"strings"

	"golang.org/x/tools/go/ssa"
)

// Val is a symbolic value.  Scalars carry an SMT term; struct values are
// flattened into fields; interior pointers carry a Loc.
type Val struct {
	t      string
	sort   string
	typ    types.Type
	fields map[string]*Val
	order  []string
	tuple  []*Val
	loc    *Loc
	mask   *big.Int // all set bits of the value lie within mask (unsigned values)
	bfTerm string   // value == bfTerm * 2^bfLo where bfTerm is a BITS term
	bfLo   int
	boxed  *Val // interface value: the value that was boxed (when known)
	clo    *ssa.MakeClosure
	fn     *ssa.Function
	frame  *Frame // frame that created a closure value
}

type locKind int

const (
	locField locKind = iota // field (path) of object ref
	locElem                 // element idx of array arr (+ path inside a struct element)
	locGlobal
)

// Loc is an abstract address.
type Loc struct {
	kind locKind
	ref  string // object ref / array id
	idx  string // element index (absolute index into the backing array)
	root string // heap name root, e.g. "F$segment", "E$uint64", "G$StorePageSize"
	path []string
	typ  types.Type // pointee type
}

func (l *Loc) heapName() string {
	if len(l.path) == 0 {
		return l.root
	}
	return l.root + "." + strings.Join(l.path, ".")
}

func (l *Loc) sub(field string, t types.Type) *Loc {
	p := append(append([]string{}, l.path...), field)
	return &Loc{kind: l.kind, ref: l.ref, idx: l.idx, root: l.root, path: p, typ: t}
}

type deferRec struct {
	guard string
	call  *ssa.Defer
	frame *Frame
	args  []*Val
	fnv   *Val
}

// State is the mutable symbolic state.
type State struct {
	heaps  map[string]string
	alloc  string
	defers []*deferRec
	region *State // the state right after the most recent lock acquisition on this path
}

func (s *State) clone() *State {
	n := &State{heaps: make(map[string]string, len(s.heaps)), alloc: s.alloc}
	for k, v := range s.heaps {
		n.heaps[k] = v
	}
	n.defers = append([]*deferRec{}, s.defers...)
	n.region = s.region
	return n
}

// Obl is a proof obligation.
type Obl struct {
	Name    string
	Kind    string
	Guard   string
	Formula string
	NFacts  int
	Pos     token.Position
	Note    string
	Func    string
	Static  string // non-empty: decided without solver ("fail:<reason>")
}

// VC accumulates declarations, facts and obligations for one verified function.
type VC struct {
	eng      *Engine
	fnKey    string
	decls    []string
	declared map[string]string
	facts    []string
	obls     []*Obl
	n        int
	heapSort map[string]string
	abstr    map[string]bool
	assumed  map[string]bool
	specUsed map[string]bool
	oblCount map[string]int
	seedInts []string
	covers   []*Obl
	seeded   map[string]bool
	bitsExact bool
	nativeArith bool
	axioms   []string
	onlyKinds map[string]bool
	onlyLabels map[string]bool
	dropped  map[string]int
	relied   map[string]bool // callee contracts applied at call sites
	allocEvents []*allocEvent // calls that only allocate in some heaps (see allocFrameAxioms)
	heapRef  map[string]string // heaps whose values are references: name -> "field" | "elem" | "map:<keysort>"
	heapVers []heapVer // named versions of reference-valued heaps (closure axioms)
	curReach string   // path condition of the instruction being executed
}

func newVC(eng *Engine, key string) *VC {
	return &VC{eng: eng, fnKey: key, declared: map[string]string{}, heapSort: map[string]string{},
		abstr: map[string]bool{}, assumed: map[string]bool{}, specUsed: map[string]bool{}, oblCount: map[string]int{}, dropped: map[string]int{}, relied: map[string]bool{}, heapRef: map[string]string{}}
}

func (vc *VC) fresh(prefix, sort string) string {
	vc.n++
	name := fmt.Sprintf("%s!%d", sanitize(prefix), vc.n)
	vc.declare(name, sort)
	return name
}

func sanitize(s string) string {
	var b strings.Builder
	for _, c := range s {
		switch {
		case c >= 'a' && c <= 'z', c >= 'A' && c <= 'Z', c >= '0' && c <= '9', c == '_', c == '$', c == '.', c == '!', c == '@':
			b.WriteRune(c)
		default:
			b.WriteByte('_')
		}
	}
	return b.String()
}

func (vc *VC) declare(name, sort string) {
	if _, ok := vc.declared[name]; ok {
		return
	}
	vc.declared[name] = sort
	vc.decls = append(vc.decls, fmt.Sprintf("(declare-fun %s () %s)", name, sort))
}

func (vc *VC) fact(f string) {
	if f == "true" {
		return
	}
	vc.facts = append(vc.facts, f)
}

func (vc *VC) abstracted(what string) { vc.abstr[what] = true }

// heap access ---------------------------------------------------------

func (vc *VC) heapInit(name string) string {
	s, ok := vc.heapSort[name]
	if !ok {
		panic("heap sort unknown for " + name)
	}
	c := sanitize(name) + "@0"
	vc.declare(c, s)
	return c
}

func (vc *VC) heapGet(st *State, name string) string {
	if t, ok := st.heaps[name]; ok {
		return t
	}
	return vc.heapInit(name)
}

// setHeap gives the heap a new named version equal to term.
func (vc *VC) heapSet(st *State, name, term string) {
	c := vc.fresh(name, vc.heapSort[name])
	vc.fact(eq(c, term))
	st.heaps[name] = c
	vc.noteVersion(st, name, c)
}

type heapVer struct{ c, name, alloc, reach string }

// noteVersion remembers a named version of a heap for the closure axioms
// (see closureAxioms): the allocation watermark and the path condition at
// the time the version came into being.
func (vc *VC) noteVersion(st *State, name, c string) {
	if strings.HasPrefix(name, "F$") || strings.HasPrefix(name, "E$") || strings.HasPrefix(name, "MV$") {
		r := vc.curReach
		if r == "" {
			r = "true"
		}
		vc.heapVers = append(vc.heapVers, heapVer{c: c, name: name, alloc: st.alloc, reach: r})
	}
}

func (vc *VC) heapHavoc(st *State, name string) string {
	if vc.eng.immutable[name] {
		// fields declared immutable are only written at construction (checked
		// separately): a havoc leaves them alone
		return vc.heapGet(st, name)
	}
	c := vc.fresh(name, vc.heapSort[name])
	st.heaps[name] = c
	vc.noteVersion(st, name, c)
	return c
}

// typeName gives the root name of a (struct) type.
func (e *Engine) typeName(t types.Type) string {
	switch u := t.(type) {
	case *types.Named:
		o := u.Obj()
		if o.Pkg() == nil || o.Pkg() == e.tpkg {
			return o.Name()
		}
		return o.Pkg().Name() + "_" + o.Name()
	case *types.Alias:
		return e.typeName(types.Unalias(u))
	case *types.Basic:
		switch u.Kind() {
		case types.Uint8:
			return "uint8"
		case types.Int32:
			return "int32"
		}
		return u.Name()
	case *types.Pointer:
		return "ptr_" + e.typeName(u.Elem())
	case *types.Slice:
		return "slc_" + e.typeName(u.Elem())
	case *types.Interface:
		return "ifc"
	case *types.Map:
		return "map_" + e.typeName(u.Key()) + "_" + e.typeName(u.Elem())
	case *types.Chan:
		return "chan"
	case *types.Signature:
		return "func"
	case *types.Struct:
		return sanitize("anon_" + u.String())
	case *types.Array:
		return fmt.Sprintf("arr%d_%s", u.Len(), e.typeName(u.Elem()))
	}
	return sanitize(t.String())
}

// scalarKey names the element/cell heap of a scalar type.
func (e *Engine) scalarKey(t types.Type) string {
	if _, ok := t.(*types.Named); ok {
		if _, isStruct := t.Underlying().(*types.Struct); !isStruct {
			// named scalar types share the heap of their underlying type
			return e.scalarKey(t.Underlying())
		}
	}
	return e.typeName(t)
}

func structOf(t types.Type) *types.Struct {
	s, _ := t.Underlying().(*types.Struct)
	return s
}

// fieldRoot is the heap root for fields of objects of struct type t.
func (e *Engine) fieldRoot(t types.Type) string {
	if structOf(t) != nil {
		return "F$" + e.typeName(t)
	}
	return "F$cell_" + e.scalarKey(t)
}

func (e *Engine) elemRoot(t types.Type) string {
	if structOf(t) != nil {
		return "E$" + e.typeName(t)
	}
	return "E$" + e.scalarKey(t)
}

// registerHeap records the sort of the heap addressed by loc (scalar pointee).
func (vc *VC) registerHeap(l *Loc) string {
	name := l.heapName()
	if _, ok := vc.heapSort[name]; !ok {
		s := sortOf(l.typ)
		if s == "" {
			panic("registerHeap on non-scalar " + l.typ.String() + " at " + name)
		}
		switch l.kind {
		case locField:
			vc.heapSort[name] = arrSort(s)
		case locElem:
			vc.heapSort[name] = arr2Sort(s)
		case locGlobal:
			vc.heapSort[name] = s
		}
	}
	if _, ok := vc.heapRef[name]; !ok {
		suffix := ""
		okT := s_isRef(l.typ)
		if !okT && l.typ != nil {
			switch l.typ.Underlying().(type) {
			case *types.Slice:
				okT, suffix = true, ":slc"
			case *types.Interface:
				okT, suffix = true, ":ifc"
			}
		}
		if okT {
			switch l.kind {
			case locField:
				vc.heapRef[name] = "field" + suffix
			case locElem:
				vc.heapRef[name] = "elem" + suffix
			}
		}
	}
	return name
}

func s_isRef(t types.Type) bool {
	if t == nil {
		return false
	}
	switch t.Underlying().(type) {
	case *types.Pointer, *types.Map, *types.Chan:
		return true
	}
	return false
}

// entryClosureAxioms: in the entry state every reference stored in an
// object designates an object that exists (0 <= r <= alloc@0).  Loads in
// code get this fact per load (assumeWF); specifications that quantify need
// it for the terms they build.
func (vc *VC) entryClosureAxioms() []string {
	var out []string
	type ent struct{ c, kind, alloc, reach string }
	var ents []ent
	for _, name := range sortedKeys(vc.heapRef) {
		c := sanitize(name) + "@0"
		if _, ok := vc.declared[c]; !ok {
			continue
		}
		ents = append(ents, ent{c, vc.heapRef[name], "alloc@0", "true"})
	}
	// later versions (stores, havocs, merges): every reference the code can
	// produce designates an object allocated by then, so does everything stored
	for _, hv := range vc.heapVers {
		if k, ok := vc.heapRef[hv.name]; ok {
			ents = append(ents, ent{hv.c, k, hv.alloc, hv.reach})
		}
	}
	for _, e := range ents {
		c, kind := e.c, e.kind
		var ax string
		proj := func(t string) string { return t }
		if strings.HasSuffix(kind, ":slc") {
			kind = strings.TrimSuffix(kind, ":slc")
			proj = func(t string) string { return "(s-arr " + t + ")" }
		} else if strings.HasSuffix(kind, ":ifc") {
			kind = strings.TrimSuffix(kind, ":ifc")
			proj = func(t string) string { return "(i-val " + t + ")" }
		}
		switch {
		case kind == "field":
			t := fmt.Sprintf("(select %s r!)", c)
			ax = fmt.Sprintf("(forall ((r! Int)) (! (and (<= 0 %s) (<= %s %s)) :pattern (%s)))", proj(t), proj(t), e.alloc, t)
		case kind == "elem":
			t := fmt.Sprintf("(select (select %s r!) i!)", c)
			ax = fmt.Sprintf("(forall ((r! Int) (i! Int)) (! (and (<= 0 %s) (<= %s %s)) :pattern (%s)))", proj(t), proj(t), e.alloc, t)
		case strings.HasPrefix(kind, "map:"):
			ks := strings.TrimPrefix(kind, "map:")
			t := fmt.Sprintf("(select (select %s m!) k!)", c)
			ax = fmt.Sprintf("(forall ((m! Int) (k! %s)) (! (and (<= 0 %s) (<= %s %s)) :pattern (%s)))", ks, proj(t), proj(t), e.alloc, t)
		}
		if ax == "" {
			continue
		}
		if e.reach != "true" && e.reach != "" {
			ax = implies(e.reach, ax)
		}
		out = append(out, ax)
	}
	return out
}

func (vc *VC) entryClosureAxiomsOld() []string {
	var out []string
	for _, name := range sortedKeys(vc.heapRef) {
		c := sanitize(name) + "@0"
		if _, ok := vc.declared[c]; !ok {
			continue
		}
		kind := vc.heapRef[name]
		switch {
		case kind == "field":
			out = append(out, fmt.Sprintf("(forall ((r! Int)) (! (and (<= 0 (select %s r!)) (<= (select %s r!) alloc@0)) :pattern ((select %s r!))))", c, c, c))
		case kind == "elem":
			out = append(out, fmt.Sprintf("(forall ((r! Int) (i! Int)) (! (and (<= 0 (select (select %s r!) i!)) (<= (select (select %s r!) i!) alloc@0)) :pattern ((select (select %s r!) i!))))", c, c, c))
		case strings.HasPrefix(kind, "map:"):
			ks := strings.TrimPrefix(kind, "map:")
			out = append(out, fmt.Sprintf("(forall ((m! Int) (k! %s)) (! (and (<= 0 (select (select %s m!) k!)) (<= (select (select %s m!) k!) alloc@0)) :pattern ((select (select %s m!) k!))))", ks, c, c, c))
		}
	}
	return out
}

// leafLocs enumerates the scalar leaves under loc.
func leafLocs(l *Loc) []*Loc {
	if st := structOf(l.typ); st != nil {
		var out []*Loc
		for i := 0; i < st.NumFields(); i++ {
			f := st.Field(i)
			out = append(out, leafLocs(l.sub(f.Name(), f.Type()))...)
		}
		return out
	}
	if _, ok := l.typ.Underlying().(*types.Array); ok {
		return nil // arrays inside structs: not modelled
	}
	return []*Loc{l}
}

func (fr *Frame) load(l *Loc) *Val {
	vc := fr.vc
	if st := structOf(l.typ); st != nil {
		v := &Val{typ: l.typ, fields: map[string]*Val{}}
		for i := 0; i < st.NumFields(); i++ {
			f := st.Field(i)
			v.fields[f.Name()] = fr.load(l.sub(f.Name(), f.Type()))
			v.order = append(v.order, f.Name())
		}
		return v
	}
	if a, ok := l.typ.Underlying().(*types.Array); ok {
		// pointer to an array object: the value of an array is not modelled;
		// only &arr[i] and arr[:] are.
		_ = a
		vc.abstracted("array value load " + l.typ.String())
		return fr.havocVal(l.typ, "arrval")
	}
	if l.kind == locGlobal && l.root == "G$io_EOF" {
		vc.assumed["io.EOF is never reassigned"] = true
		return &Val{t: mkIfc("1000000", "999999"), sort: sIfc, typ: l.typ}
	}
	if l.kind == locGlobal && isErrGlobal(l.root) && len(l.path) == 0 && sortOf(l.typ) == sIfc {
		// package-level error values: immutable, non-nil, pairwise distinct
		vc.assumed["package-level Err* variables are never reassigned, non-nil and pairwise distinct"] = true
		return &Val{t: mkIfc("1000000", intLit(int64(1000000+fr.eng.strID(l.root)))), sort: sIfc, typ: l.typ}
	}
	name := vc.registerHeap(l)
	h := vc.heapGet(fr.st, name)
	var t string
	switch l.kind {
	case locField:
		t = sel(h, l.ref)
	case locElem:
		t = sel(sel(h, l.ref), l.idx)
	case locGlobal:
		t = h
	}
	v := &Val{t: t, sort: sortOf(l.typ), typ: l.typ}
	if !fr.eng.noWF || !hasBoundVar(t) {
		fr.assumeWF(v)
	}
	return v
}

func (fr *Frame) store(l *Loc, v *Val) {
	vc := fr.vc
	if st := structOf(l.typ); st != nil {
		for i := 0; i < st.NumFields(); i++ {
			f := st.Field(i)
			fv := v.fields[f.Name()]
			if fv == nil {
				fv = fr.zero(f.Type())
			}
			fr.store(l.sub(f.Name(), f.Type()), fv)
		}
		return
	}
	if _, ok := l.typ.Underlying().(*types.Array); ok {
		vc.abstracted("array value store " + l.typ.String())
		return
	}
	name := vc.registerHeap(l)
	h := vc.heapGet(fr.st, name)
	val := fr.scalar(v)
	switch l.kind {
	case locField:
		vc.heapSet(fr.st, name, sto(h, l.ref, val))
	case locElem:
		vc.heapSet(fr.st, name, sto(h, l.ref, sto(sel(h, l.ref), l.idx, val)))
	case locGlobal:
		vc.heapSet(fr.st, name, val)
	}
}

// scalar returns the SMT term of a scalar value (interior pointers to
// objects decay to their ref when the path is empty).
func (fr *Frame) scalar(v *Val) string {
	if v == nil {
		panic("nil value")
	}
	if v.loc != nil && v.t == "" {
		if v.loc.kind == locField && len(v.loc.path) == 0 {
			return v.loc.ref
		}
		if v.loc.kind == locElem && len(v.loc.path) == 0 {
			// pointer to array object (idx "" means the array itself)
			if v.loc.idx == "" {
				return v.loc.ref
			}
		}
		fr.vc.abstracted("interior pointer escapes: " + v.loc.heapName())
		return fr.vc.fresh("iptr", sInt)
	}
	if v.t == "" {
		panic(fmt.Sprintf("value of type %v has no scalar term", v.typ))
	}
	return v.t
}

// assumeWF adds the well-formedness facts of a freshly read value.
func (fr *Frame) assumeWF(v *Val) {
	if v.t == "" {
		return
	}
	// Guarded by the path condition: the value may have been stored on this
	// path only (a slice stored after its bounds check is well formed because
	// of that check), so the fact must not leak into other paths.
	wfFact := func(f string) {
		if fr.reach != "" && fr.reach != "true" {
			fr.vc.fact(implies(fr.reach, f))
		} else {
			fr.vc.fact(f)
		}
	}
	switch v.sort {
	case sInt:
		if _, _, ok := intRange(v.typ); ok {
			wfFact(rangeFact(v.t, v.typ))
		} else {
			switch v.typ.Underlying().(type) {
			case *types.Pointer, *types.Map, *types.Chan, *types.Signature:
				wfFact(app("<=", "0", v.t))
				wfFact(app("<=", v.t, fr.st.alloc))
			}
		}
	case sSlc:
		t := v.t
		wfFact(and(app("<=", "0", sArr(t)), app("<=", sArr(t), fr.st.alloc), app("<=", "0", sOff(t)), app("<=", "0", sLen(t)), app("<=", sLen(t), sCap(t)),
			implies(eq(sArr(t), "0"), and(eq(sCap(t), "0"), eq(sOff(t), "0"))), app("<=", sCap(t), "4611686018427387904")))
	case sIfc:
		wfFact(and(app("<=", "0", iTag(v.t)), app("<=", "0", iVal(v.t)), app("<=", iVal(v.t), fr.st.alloc), implies(eq(iTag(v.t), "0"), eq(iVal(v.t), "0"))))
	}
}

// isErrGlobal: G$ErrXxx or G$<pkg>_ErrXxx (package-level error sentinels).
func isErrGlobal(root string) bool {
	if !strings.HasPrefix(root, "G$") {
		return false
	}
	n := root[2:]
	if i := strings.Index(n, "_"); i >= 0 && !strings.HasPrefix(n, "Err") {
		n = n[i+1:]
	}
	return strings.HasPrefix(n, "Err")
}

// hasBoundVar reports whether a term mentions a quantifier / binder variable.
func hasBoundVar(t string) bool {
	return strings.Contains(t, "!q") || strings.Contains(t, "!p") || strings.Contains(t, "ih!") || strings.Contains(t, "h!")
}

func (fr *Frame) havocVal(t types.Type, hint string) *Val {
	if tu, ok := t.(*types.Tuple); ok {
		v := &Val{typ: t}
		for i := 0; i < tu.Len(); i++ {
			v.tuple = append(v.tuple, fr.havocVal(tu.At(i).Type(), fmt.Sprintf("%s.%d", hint, i)))
		}
		return v
	}
	if st := structOf(t); st != nil {
		v := &Val{typ: t, fields: map[string]*Val{}}
		for i := 0; i < st.NumFields(); i++ {
			f := st.Field(i)
			v.fields[f.Name()] = fr.havocVal(f.Type(), hint+"."+f.Name())
			v.order = append(v.order, f.Name())
		}
		return v
	}
	s := sortOf(t)
	if s == "" {
		fr.vc.abstracted("value of unmodelled type " + t.String())
		s = sInt
	}
	v := &Val{t: fr.vc.fresh(hint, s), sort: s, typ: t}
	fr.assumeWF(v)
	return v
}

func (fr *Frame) zero(t types.Type) *Val {
	if st := structOf(t); st != nil {
		v := &Val{typ: t, fields: map[string]*Val{}}
		for i := 0; i < st.NumFields(); i++ {
			f := st.Field(i)
			v.fields[f.Name()] = fr.zero(f.Type())
			v.order = append(v.order, f.Name())
		}
		return v
	}
	s := sortOf(t)
	switch s {
	case sInt:
		return &Val{t: "0", sort: s, typ: t}
	case sBool:
		return &Val{t: "false", sort: s, typ: t}
	case sReal:
		return &Val{t: "0.0", sort: s, typ: t}
	case sSlc:
		return &Val{t: nilSlc, sort: s, typ: t}
	case sIfc:
		return &Val{t: nilIfc, sort: s, typ: t}
	}
	return &Val{t: "0", sort: sInt, typ: t}
}

// newObject allocates a fresh reference.
func (fr *Frame) newRef(hint string) string {
	r := fr.vc.fresh(hint, sInt)
	fr.vc.fact(eq(r, app("+", fr.st.alloc, "1")))
	fr.st.alloc = r
	return r
}

// mergeStates builds the join of states under the given (mutually exclusive) conditions.
func (vc *VC) mergeStates(conds []string, sts []*State) *State {
	if len(sts) == 1 {
		return sts[0].clone()
	}
	out := &State{heaps: map[string]string{}}
	names := map[string]bool{}
	for _, s := range sts {
		for k := range s.heaps {
			names[k] = true
		}
	}
	mergeTerm := func(get func(*State) string, sort, hint string) string {
		first := get(sts[0])
		same := true
		for _, s := range sts[1:] {
			if get(s) != first {
				same = false
			}
		}
		if same {
			return first
		}
		c := vc.fresh(hint, sort)
		if strings.HasPrefix(sort, "(Array") {
			// heaps: one guarded equation per incoming path instead of an ite
			// term - the e-graph then identifies the merged heap with the
			// incoming one on each path, which is what E-matching needs
			for i := range sts {
				vc.fact(implies(conds[i], eq(c, get(sts[i]))))
			}
			return c
		}
		t := get(sts[len(sts)-1])
		for i := len(sts) - 2; i >= 0; i-- {
			t = ite(conds[i], get(sts[i]), t)
		}
		vc.fact(eq(c, t))
		return c
	}
	for _, k := range sortedKeys(names) {
		k := k
		out.heaps[k] = mergeTerm(func(s *State) string { return vc.heapGet(s, k) }, vc.heapSort[k], k)
	}
	out.alloc = mergeTerm(func(s *State) string { return s.alloc }, sInt, "alloc")
	// region states: merged like the states themselves
	{
		allHave, same := true, true
		for _, s := range sts {
			if s.region == nil {
				allHave = false
			}
			if s.region != sts[0].region {
				same = false
			}
		}
		if allHave && same {
			out.region = sts[0].region
		} else if allHave {
			var rs []*State
			for _, s := range sts {
				rs = append(rs, s.region)
			}
			out.region = vc.mergeStates(conds, rs)
		}
	}
	seen := map[*deferRec]bool{}
	for _, s := range sts {
		for _, d := range s.defers {
			if !seen[d] {
				seen[d] = true
				out.defers = append(out.defers, d)
			}
		}
	}
	return out
}

// mergeVals joins values under mutually exclusive conditions.
func (fr *Frame) mergeVals(conds []string, vs []*Val, hint string) *Val {
	if len(vs) == 1 {
		return vs[0]
	}
	v0 := vs[0]
	if v0.tuple != nil {
		out := &Val{typ: v0.typ}
		for i := range v0.tuple {
			var col []*Val
			for _, v := range vs {
				col = append(col, v.tuple[i])
			}
			out.tuple = append(out.tuple, fr.mergeVals(conds, col, fmt.Sprintf("%s.%d", hint, i)))
		}
		return out
	}
	if v0.fields != nil {
		out := &Val{typ: v0.typ, fields: map[string]*Val{}, order: v0.order}
		for _, f := range v0.order {
			var col []*Val
			for _, v := range vs {
				col = append(col, v.fields[f])
			}
			out.fields[f] = fr.mergeVals(conds, col, hint+"."+f)
		}
		return out
	}
	same := true
	t0 := fr.scalar(v0)
	terms := []string{t0}
	for _, v := range vs[1:] {
		t := fr.scalar(v)
		terms = append(terms, t)
		if t != t0 {
			same = false
		}
	}
	if same {
		return v0
	}
	t := terms[len(terms)-1]
	for i := len(terms) - 2; i >= 0; i-- {
		t = ite(conds[i], terms[i], t)
	}
	s := v0.sort
	if s == "" {
		s = sortOf(v0.typ)
	}
	c := fr.vc.fresh(hint, s)
	fr.vc.fact(eq(c, t))
	out := &Val{t: c, sort: s, typ: v0.typ}
	// keep the mask if all agree
	if v0.mask != nil {
		m := new(big.Int).Set(v0.mask)
		ok := true
		for _, v := range vs[1:] {
			if v.mask == nil {
				ok = false
				break
			}
			m.Or(m, v.mask)
		}
		if ok {
			out.mask = m
		}
	}
	return out
}

// allocEvent: a call after which some heaps differ from their previous
// version only at objects allocated by the call.
type allocEvent struct {
	nfacts   int               // facts recorded up to and including the event
	bound    string            // allocation watermark before the call
	trans    map[string][2]string // heap -> (old term, new term), allocation-only
	modified map[string]bool   // heaps with declared (non-allocation) effects in the same call
	cur      map[string]string // every heap's term right after the call
}
