package main

import (
	"encoding/json"
	"fmt"
	"os"
	"os/exec"
	"path/filepath"
	"regexp"
	"runtime"
	"sort"
	"strconv"
	"strings"
	"time"
)

type KnownFinding struct {
	Property   string `json:"property"`
	Obligation string `json:"obligation"` // "<func> :: <name>" ; a trailing ~n (return ordinal) is ignored
	Status     string `json:"status"`     // known | fixed
	Commit     string `json:"commit,omitempty"`
	What       string `json:"what"`
	Witness    string `json:"witness,omitempty"`
}

var reOrd = regexp.MustCompile(`~\d+$`)

func oblID(o *Obl) string { return o.Func + " :: " + reOrd.ReplaceAllString(o.Name, "") }

func loadKnown(verif string) []KnownFinding {
	var ks []KnownFinding
	b, err := os.ReadFile(filepath.Join(verif, "known_findings.json"))
	if err != nil {
		return nil
	}
	if err := json.Unmarshal(b, &ks); err != nil {
		fmt.Fprintln(os.Stderr, "known_findings.json:", err)
	}
	return ks
}

// verifyProp generates and solves the obligations of a property on an engine.
func verifyProp(eng *Engine, prop string, opts solveOpts) (results []*Result, vcs []*VC, engineErrs []string) {
	keys := eng.contractedKeysForProp(prop)
	for _, k := range keys {
		vc, err := eng.verifyFunc(k)
		if err != nil {
			engineErrs = append(engineErrs, err.Error())
			vc = newVC(eng, k)
			vc.obls = append(vc.obls, &Obl{Name: "generate", Kind: "stale", Guard: "true", Formula: "false", Func: k,
				Static: "fail:the generator could not produce the obligations of " + k + ": " + firstLine(err.Error())})
		}
		if err == nil {
			eng.applyClaimOnly(k, prop, vc)
		}
		vcs = append(vcs, vc)
	}
	for _, n := range eng.cf.LemmaOrd {
		for _, p := range eng.cf.Lemmas[n].Props {
			if p == prop {
				vc, err := eng.verifyLemma(n)
				if err != nil {
					engineErrs = append(engineErrs, err.Error())
					continue
				}
				vcs = append(vcs, vc)
			}
		}
	}
	if len(eng.immutable) > 0 {
		vcs = append(vcs, eng.immutabilityObligations())
	}
	results = solveAll(vcs, opts)
	return
}

type mutantResult struct {
	Mutant   string   `json:"mutant"`
	Detected bool     `json:"detected"`
	Failed   []string `json:"failed_obligations,omitempty"`
	Error    string   `json:"error,omitempty"`
	Seconds  float64  `json:"seconds"`
}

// runMutants applies every /verif/mutants/<prop>-*.patch and every
// /verif/seeded/<prop>/*/patch.diff (changes written by independent agents
// that saw only the property text) to a scratch copy of the repository and
// checks that the property's obligations then fail.
func runMutants(eng *Engine, prop, verif string, known map[string]KnownFinding) []mutantResult {
	files, _ := filepath.Glob(filepath.Join(verif, "mutants", prop+"-*.patch"))
	seeded, _ := filepath.Glob(filepath.Join(verif, "seeded", prop, "*", "patch.diff"))
	sort.Strings(files)
	sort.Strings(seeded)
	files = append(files, seeded...)
	var out []mutantResult
	for _, pf := range files {
		mr := applyMutant(eng, prop, pf, known)
		if rel, err := filepath.Rel(verif, pf); err == nil {
			mr.Mutant = rel
		}
		out = append(out, mr)
	}
	return out
}

func applyMutant(eng *Engine, prop, pf string, known map[string]KnownFinding) mutantResult {
	start := time.Now()
	mr := mutantResult{Mutant: filepath.Base(pf)}
	func() {
		scratch, err := os.MkdirTemp("", "govc-mutant-")
		if err != nil {
			mr.Error = err.Error()
			return
		}
		defer os.RemoveAll(scratch)
		srcs, _ := filepath.Glob(filepath.Join(eng.repo, "*.go"))
		srcs = append(srcs, filepath.Join(eng.repo, "go.mod"), filepath.Join(eng.repo, "go.sum"))
		for _, f := range srcs {
			b, err := os.ReadFile(f)
			if err == nil {
				os.WriteFile(filepath.Join(scratch, filepath.Base(f)), b, 0o644)
			}
		}
		cmd := exec.Command("patch", "-p1", "-s", "-i", pf)
		cmd.Dir = scratch
		if o, err := cmd.CombinedOutput(); err != nil {
			mr.Error = "patch does not apply (the code it mutates has changed): " + firstLine(string(o))
			return
		}
		meng, err := loadEngine(scratch)
		if err != nil {
			mr.Error = "mutant does not load: " + firstLine(err.Error())
			return
		}
		work, _ := os.MkdirTemp("", "govc-mutant-work-")
		defer os.RemoveAll(work)
		vp := prop
		if prop == "all" {
			vp = "" // every contract that carries a property tag
		}
		rs, _, errs := verifyProp(meng, vp, solveOpts{workDir: work, quickS: 5, fullS: 12, parallel: (runtime.NumCPU() + 1) / 2})
		for _, r := range rs {
			if r.Obl.Kind == "cover" {
				continue
			}
			if r.Status != "unsat" {
				if _, ok := known[oblID(r.Obl)]; ok {
					continue
				}
				id := oblID(r.Obl)
				if prop == "all" {
					if c := meng.cf.Contracts[r.Obl.Func]; c != nil {
						id += " [" + strings.Join(c.Props, ",") + "]"
					}
				}
				mr.Failed = append(mr.Failed, id)
			}
		}
		if len(errs) > 0 {
			mr.Failed = append(mr.Failed, "engine: "+firstLine(errs[0]))
		}
		props := []string{prop}
		if prop == "all" {
			props = []string{"C09"}
		}
		for _, p := range props {
			for _, b := range boundedStandins[p] {
				if br := runBounded(verifRoot, scratch, "quick", b); !br.Passed {
					mr.Failed = append(mr.Failed, "bounded stand-in "+b.Test+": "+firstLine(lineWith(br.Output, "VERIF-BOUNDED")))
				}
			}
		}
		mr.Detected = len(mr.Failed) > 0
	}()
	mr.Seconds = time.Since(start).Seconds()
	if len(mr.Failed) > 6 && prop != "all" {
		mr.Failed = append(mr.Failed[:6], fmt.Sprintf("... and %d more", len(mr.Failed)-6))
	}
	return mr
}

func runCheck(eng *Engine, prop, tier, verif string, loadS float64, start time.Time) int {
	seed := 0
	if s := os.Getenv("VERIF_SEED"); s != "" {
		seed, _ = strconv.Atoi(s)
	}
	keys := eng.contractedKeysForProp(prop)
	var lemmas []string
	for _, n := range eng.cf.LemmaOrd {
		for _, p := range eng.cf.Lemmas[n].Props {
			if p == prop {
				lemmas = append(lemmas, n)
			}
		}
	}
	work, _ := os.MkdirTemp("", "govc-"+prop+"-")
	defer os.RemoveAll(work)
	var vcs []*VC
	var engineErrs []string
	var underContract, trusted, ifaceOnly []string
	for _, k := range keys {
		c := eng.cf.Contracts[k]
		vc, err := eng.verifyFunc(k)
		if err != nil {
			engineErrs = append(engineErrs, err.Error())
			vc = newVC(eng, k)
			vc.obls = append(vc.obls, &Obl{Name: "generate", Kind: "stale", Guard: "true", Formula: "false", Func: k,
				Static: "fail:the generator could not produce the obligations of " + k + ": " + firstLine(err.Error())})
		}
		if err == nil {
			eng.applyClaimOnly(k, prop, vc)
		}
		switch {
		case c.Trusted:
			trusted = append(trusted, k)
		case eng.fnByKey[k] == nil && eng.ifaceMethod(k) != nil:
			ifaceOnly = append(ifaceOnly, k)
		default:
			underContract = append(underContract, k)
		}
		vcs = append(vcs, vc)
	}
	for _, n := range lemmas {
		vc, err := eng.verifyLemma(n)
		if err != nil {
			engineErrs = append(engineErrs, err.Error())
			vc = newVC(eng, "lemma "+n)
			vc.obls = append(vc.obls, &Obl{Name: "generate", Kind: "stale", Guard: "true", Formula: "false", Func: "lemma " + n,
				Static: "fail:the generator could not produce the obligations of lemma " + n + ": " + firstLine(err.Error())})
		}
		vcs = append(vcs, vc)
	}
	if len(eng.immutable) > 0 {
		vcs = append(vcs, eng.immutabilityObligations())
	}
	// CPU seconds per solver process (see solve.go).  The last stage is long
	// on purpose: it is only reached by obligations that are about to be
	// reported as violations, and a loaded machine must not turn a proof
	// that needs a few CPU seconds into an alarm.
	opts := solveOpts{workDir: work, quickS: 6, fullS: 40, parallel: (runtime.NumCPU() + 1) / 2}
	if tier == "thorough" {
		opts.quickS, opts.fullS = 10, 120
	}
	known := loadKnown(verif)
	knownIdx := map[string]KnownFinding{}
	opts.quickOnly = map[string]bool{}
	for _, k := range known {
		if k.Property == prop && k.Status == "known" {
			knownIdx[k.Obligation] = k
			opts.quickOnly[k.Obligation] = true
		}
	}
	results := solveAll(vcs, opts)
	sortResults(results)

	nObl, nDis, nCover, nCoverOK := 0, 0, 0, 0
	byBackend := map[string]int{}
	var solverMs int64
	var samples []map[string]interface{}
	var violations []*Result
	knownHit := map[string]*Result{}
	var deadDeclared []string
	proved := map[string]bool{}
	failedFn := map[string]bool{}
	for _, r := range results {
		solverMs += r.Ms
		if r.Obl.Kind == "cover" {
			nCover++
			if r.Status == "sat" {
				nCoverOK++
			} else if eng.deadByContract(r) {
				deadDeclared = append(deadDeclared, oblID(r.Obl))
			} else {
				violations = append(violations, r)
				failedFn[r.Obl.Func] = true
			}
			continue
		}
		id := oblID(r.Obl)
		if r.Status == "unsat" {
			nObl++
			nDis++
			byBackend[r.Backend]++
			if len(samples) < 6 || (len(samples) < 12 && r.Obl.Kind == "ensures") {
				samples = append(samples, map[string]interface{}{"obligation": r.Obl.Func + " :: " + r.Obl.Name, "kind": r.Obl.Kind,
					"source": fmt.Sprintf("%s:%d", filepath.Base(r.Obl.Pos.Filename), r.Obl.Pos.Line), "backend": r.Backend, "ms": r.Ms, "clause": r.Obl.Note})
			}
			continue
		}
		if _, ok := knownIdx[id]; ok {
			if knownHit[id] == nil {
				knownHit[id] = r
			}
			continue
		}
		nObl++
		violations = append(violations, r)
		failedFn[r.Obl.Func] = true
	}
	for _, k := range underContract {
		if !failedFn[k] {
			proved[k] = true
		}
	}

	// report
	exit := 0
	os.MkdirAll(filepath.Join(verif, "replays"), 0o755)
	for id, r := range knownHit {
		fmt.Printf("KNOWN-FINDING: property=%s %s %s\n", prop, id, knownIdx[id].What)
		_ = r
	}
	seenV := map[string]bool{}
	for _, r := range violations {
		id := oblID(r.Obl)
		if seenV[id] {
			continue
		}
		seenV[id] = true
		exit = 1
		rp := filepath.Join(verif, "replays", sanitize(prop+"__"+r.Obl.Func+"__"+reOrd.ReplaceAllString(r.Obl.Name, ""))+".json")
		suffix := writeReplay(eng, verif, prop, r, rp)
		fmt.Printf("VIOLATION property=%s replay=%s %s\n", prop, rp, suffix)
		fmt.Printf("  failed obligation: %s (%s:%d) status=%s %s\n", id, filepath.Base(r.Obl.Pos.Filename), r.Obl.Pos.Line, r.Status, firstLine(r.Output))
	}
	if len(keys)+len(lemmas) == 0 {
		fmt.Printf("VIOLATION property=%s replay=%s no-failing-input-found\n", prop, filepath.Join(verif, "replays", prop+"__no_contracts.json"))
		fmt.Println("  no contract in the contract file is tagged with this property")
		exit = 1
	}
	if nObl == 0 && exit == 0 {
		fmt.Printf("VIOLATION property=%s replay=%s no-failing-input-found\n", prop, filepath.Join(verif, "replays", prop+"__vacuous.json"))
		fmt.Println("  zero obligations generated (vacuity guard)")
		exit = 1
	}

	// thorough tier: must-fail corpus and witnesses of the recorded findings
	var mutants []mutantResult
	var witnessRuns []map[string]interface{}
	if tier == "thorough" {
		mutants = runMutants(eng, prop, verif, knownIdx)
		for _, m := range mutants {
			if !m.Detected {
				fmt.Printf("SELFTEST: mutant %s not detected (%s)\n", m.Mutant, m.Error)
			}
		}
		seenW := map[string]bool{}
		for _, k := range known {
			if k.Property != prop || k.Witness == "" || seenW[k.Witness] {
				continue
			}
			seenW[k.Witness] = true
			w := runWitness(verif, eng.repo, k.Witness)
			witnessRuns = append(witnessRuns, map[string]interface{}{"witness": k.Witness, "finding_status": k.Status, "failed_on_this_tree": w.Failed, "seconds": w.Seconds, "run_error": w.RunError})
			if k.Status == "fixed" && w.Failed {
				// a repaired defect is back: the stored failing input fails again on the real code
				rp := filepath.Join(verif, "replays", sanitize(prop+"__witness__"+k.Witness)+".json")
				rep := map[string]interface{}{"property": prop, "obligation": k.Obligation, "what": k.What, "replay": w}
				b, _ := json.MarshalIndent(rep, "", " ")
				os.WriteFile(rp, append(b, '\n'), 0o644)
				if !seenV[k.Obligation] {
					seenV[k.Obligation] = true
					fmt.Printf("VIOLATION property=%s replay=%s\n", prop, rp)
					fmt.Printf("  the witness of the repaired finding fails again: %s\n", k.Witness)
					exit = 1
				}
			}
		}
	}

	// bounded stand-ins (both tiers; the bound depends on the tier)
	var bounded []boundedResult
	for _, b := range boundedStandins[prop] {
		r := runBounded(verif, eng.repo, tier, b)
		bounded = append(bounded, r)
		if !r.Passed {
			rp := filepath.Join(verif, "replays", sanitize(prop+"__bounded__"+b.Test)+".json")
			rep := map[string]interface{}{"property": prop, "kind": "bounded stand-in: failing input found on the real code", "standin": r,
				"rerun": fmt.Sprintf("cd %s && VERIF_TIER=%s go test -overlay <(echo '{\"Replace\":{\"%s/zz_verif_bounded_test.go\":\"%s\"}}') -vet=off -count=1 -run '^%s$' -v .", eng.repo, tier, eng.repo, filepath.Join(verif, b.File), b.Test)}
			bj, _ := json.MarshalIndent(rep, "", " ")
			os.WriteFile(rp, append(bj, '\n'), 0o644)
			fmt.Printf("VIOLATION property=%s replay=%s\n", prop, rp)
			fmt.Printf("  bounded stand-in %s failed: %s\n", b.Test, firstLine(lineWith(r.Output, "VERIF-BOUNDED")))
			seenV["bounded "+b.Test] = true
			exit = 1
		}
	}

	// evidence
	abstr := map[string]bool{}
	assumed := map[string]bool{}
	for _, vc := range vcs {
		for a := range vc.abstr {
			abstr[vc.fnKey+": "+a] = true
		}
		for a := range vc.assumed {
			assumed[a] = true
		}
	}
	// the slowest discharged obligations (fragility indicator)
	var slow []*Result
	for _, r := range results {
		if r.Obl.Kind != "cover" && r.Status == "unsat" {
			slow = append(slow, r)
		}
	}
	sort.SliceStable(slow, func(i, j int) bool { return slow[i].Ms > slow[j].Ms })
	var slowest []map[string]interface{}
	for i, r := range slow {
		if i >= 8 {
			break
		}
		slowest = append(slowest, map[string]interface{}{"obligation": oblID(r.Obl), "ms": r.Ms, "backend": r.Backend})
	}
	// callee contracts this property's proofs rely on, and how each is backed
	relied := map[string]bool{}
	for _, vc := range vcs {
		for k := range vc.relied {
			relied[k] = true
		}
	}
	var reliedL []string
	for _, k := range sortedKeys(relied) {
		st := eng.contractBacking(k)
		reliedL = append(reliedL, k+": "+st)
		if strings.HasPrefix(st, "ASSUMED") {
			assumed["callee contract "+k+": "+st] = true
		}
	}
	var bvRules []string
	for r := range eng.bvCerts {
		bvRules = append(bvRules, r)
	}
	sort.Strings(bvRules)
	trustedBase := []string{
		"go/packages, go/types, go/ssa (golang.org/x/tools v0.29.0) building the SSA of /repo on this run",
		"govc: SSA->SMT encoder of this project (self-tested by the must-fail corpus /verif/mutants)",
		"SMT back ends: z3 5.1.0, z3 4.8.12, cvc5 1.0 (an obligation counts as discharged when one answers unsat)",
		"byte strings compared only through an order-embedding rank (sound: byte strings under lexicographic order embed into the reals)",
		"integers are mathematical; machine ranges assumed for values read from memory; overflow obligations only in functions marked `overflow check`",
	}
	for _, t := range trusted {
		trustedBase = append(trustedBase, "trusted contract: "+t+" ("+eng.cf.Contracts[t].Attrs["trusted"]+")")
	}
	var provedL []string
	for k := range proved {
		provedL = append(provedL, k)
	}
	sort.Strings(provedL)
	var knownL []string
	for id := range knownHit {
		knownL = append(knownL, id)
	}
	sort.Strings(knownL)
	ev := map[string]interface{}{
		"property_id": prop,
		"tier":        tier,
		"seed":        seed,
		"level":       "proof",
		"coverage": map[string]interface{}{
			"obligations":              nObl,
			"discharged":               nDis,
			"checker_cmd":              fmt.Sprintf("/verif/bin/govc check %s --tier %s", prop, tier),
			"trusted_base":             trustedBase,
			"functions_under_contract": underContract,
			"functions_proved":         provedL,
			"interface_contracts":      ifaceOnly,
			"trusted_contracts":        trusted,
			"callee_contracts_relied_on": reliedL,
			"lemmas":                   lemmas,
			"by_backend":               byBackend,
			"solver_time_s":            float64(solverMs) / 1000.0,
			"samples":                  samples,
			"slowest_obligations":      slowest,
			"vacuity":                  map[string]int{"covers": nCover, "covers_satisfiable_or_unrefuted": nCoverOK, "unreachable_declared_dead": len(deadDeclared)},
			"declared_dead_code":       deadDeclared,
			"abstracted":               sortedKeys(abstr),
			"bit_rewrite_rules_used":   bvRules,
			"known_finding_obligations": knownL,
			"engine_errors":            engineErrs,
			"bounded_standins":         bounded,
			"must_fail_corpus":         mutants,
			"witness_runs":             witnessRuns,
		},
		"assumptions": sortedKeys(assumed),
		"wall_s":      time.Since(start).Seconds(),
		"violations":  len(seenV),
	}
	os.MkdirAll(filepath.Join(verif, "evidence"), 0o755)
	b, _ := json.MarshalIndent(ev, "", " ")
	os.WriteFile(filepath.Join(verif, "evidence", prop+".json"), append(b, '\n'), 0o644)
	fmt.Printf("%s: %d obligations, %d discharged, %d known findings, %d violations; %d functions under contract; load %.1fs, total %.1fs\n",
		prop, nObl, nDis, len(knownHit), len(seenV), len(underContract), loadS, time.Since(start).Seconds())
	return exit
}

// writeReplay writes the replay file of a failed obligation; returns the
// suffix of the VIOLATION line ("" when a failing input was replayed on the
// real code, "no-failing-input-found" otherwise).
func writeReplay(eng *Engine, verif, prop string, r *Result, path string) string {
	smt := readFile(r.File)
	rep := map[string]interface{}{
		"property":   prop,
		"obligation": r.Obl.Func + " :: " + r.Obl.Name,
		"kind":       r.Obl.Kind,
		"source":     fmt.Sprintf("%s:%d", r.Obl.Pos.Filename, r.Obl.Pos.Line),
		"clause":     r.Obl.Note,
		"status":     r.Status,
		"backend":    r.Backend,
		"solver_output": strings.TrimSpace(r.Output),
		"static_reason": r.Obl.Static,
		"smt2":       smt,
	}
	suffix := "no-failing-input-found"
	if found, detail := tryReplay(eng, verif, prop, r); found {
		suffix = ""
		rep["replay"] = detail
	} else if detail != nil {
		rep["replay_attempt"] = detail
	}
	b, _ := json.MarshalIndent(rep, "", " ")
	os.WriteFile(path, append(b, '\n'), 0o644)
	return suffix
}

// contractBacking says how a contract applied at call sites is itself
// backed: proved by the check of some property, trusted, external, or (for
// thin contracts) which parts are assumed.
func (e *Engine) contractBacking(k string) string {
	c := e.cf.Contracts[k]
	if c == nil {
		return "no contract"
	}
	if c.Trusted {
		return "ASSUMED (trusted contract: " + c.Attrs["trusted"] + ")"
	}
	fn := e.fnByKey[k]
	if fn == nil || len(fn.Blocks) == 0 {
		return "ASSUMED (contract on an interface method, callback or external function: no body to verify)"
	}
	if len(c.Props) == 0 {
		return "ASSUMED (no property check verifies this contract)"
	}
	by := "verified by the check(s) of " + strings.Join(c.Props, ",")
	var notProved []string
	kinds := c.Attrs["obligations"]
	labels := c.Attrs["only-labels"]
	ensuresKept := kinds == "" || strings.Contains(" "+kinds+" ", " ensures ")
	for i, en := range c.Ensures {
		nm := clauseName("ensures", i, en)
		switch {
		case strings.HasPrefix(en.Label, "assume_"):
			notProved = append(notProved, nm)
		case !ensuresKept:
			notProved = append(notProved, nm)
		case labels != "":
			keep := false
			for _, l := range strings.Fields(labels) {
				if en.Label == l {
					keep = true
				}
			}
			if !keep {
				notProved = append(notProved, nm)
			}
		}
	}
	frameKept := (kinds == "" || strings.Contains(" "+kinds+" ", " frame ")) && labels == ""
	if len(notProved) == 0 && frameKept {
		return by
	}
	s := "ASSUMED in part (thin contract, " + by + "): not proved:"
	if len(notProved) > 0 {
		s += " " + strings.Join(notProved, ", ")
	}
	if !frameKept {
		s += " and the modifies frame"
	}
	return s
}

// deadByContract: an unreachable guard is accepted when the contract of the
// function declares the code at that position dead (`dead <fragment of the
// source line>`).
func (e *Engine) deadByContract(r *Result) bool {
	if !strings.HasPrefix(r.Obl.Name, "reach/cover") {
		return false
	}
	c := e.cf.Contracts[r.Obl.Func]
	if c == nil || len(c.Dead) == 0 || r.Obl.Pos.Filename == "" {
		return false
	}
	b, err := os.ReadFile(r.Obl.Pos.Filename)
	if err != nil {
		return false
	}
	lines := strings.Split(string(b), "\n")
	if r.Obl.Pos.Line < 1 || r.Obl.Pos.Line > len(lines) {
		return false
	}
	// the statement may span a few lines: look at the line and its two predecessors
	txt := ""
	for i := r.Obl.Pos.Line - 3; i < r.Obl.Pos.Line; i++ {
		if i >= 0 {
			txt += " " + strings.TrimSpace(lines[i])
		}
	}
	for _, d := range c.Dead {
		if d != "" && strings.Contains(txt, d) {
			return true
		}
	}
	return false
}

// Bounded stand-ins: exhaustive small-scope checks of REAL functions that no
// contract reaches (trusted or uncontracted).  They are labelled bounded in
// the evidence and never counted as proved; a failure is a failing input
// replayed on the real code.
var verifRoot = "/verif"

type boundedStandin struct {
	File, Test, Covers, Bound string
}

var boundedStandins = map[string][]boundedStandin{}

func init() {
	it := boundedStandin{
		File:   "bounded/iter_merge_bounded_test.go",
		Test:   "TestVerifBoundedIterMerge",
		Covers: "heap iterator (segmentStack.startIterator/StartIterator, iterator.Next/SeekTo/Current/CurrentEx, optimize) and segmentStack.mergeInto (trusted contract), against a reference fold",
		Bound:  "keys {\"\",a,b}; per key absent|Set|Del|Merge; quick: all stacks of <= 2 levels (lowest optionally the lower-level snapshot) + 1500 seeded random 3-level stacks; thorough: all stacks of <= 3 levels (~516000); string-append merge operator; all ranges over {nil,\"\",a,b,c}; SeekTo from fresh and exhausted iterators and two consecutive seeks on start-bounded ranges; mergeInto of every upper range, with/without base, both tail modes",
	}
	for _, p := range []string{"C01", "C07", "C08", "C09", "C10", "C13"} {
		boundedStandins[p] = append(boundedStandins[p], it)
	}
}

type boundedResult struct {
	Name    string  `json:"name"`
	Covers  string  `json:"functions_covered"`
	Bound   string  `json:"bound"`
	Level   string  `json:"level"`
	Passed  bool    `json:"passed"`
	Stats   string  `json:"stats"`
	Seconds float64 `json:"seconds"`
	Output  string  `json:"output,omitempty"`
}

func runBounded(verif, repo, tier string, b boundedStandin) boundedResult {
	res := boundedResult{Name: b.File + ":" + b.Test, Covers: b.Covers, Bound: b.Bound, Level: "bounded (not a proof; not counted in obligations/discharged)"}
	start := time.Now()
	tmp, err := os.MkdirTemp("", "govc-bounded-")
	if err != nil {
		res.Output = err.Error()
		return res
	}
	defer os.RemoveAll(tmp)
	ov := map[string]map[string]string{"Replace": {filepath.Join(repo, "zz_verif_bounded_test.go"): filepath.Join(verif, b.File)}}
	bb, _ := json.Marshal(ov)
	ovPath := filepath.Join(tmp, "ov.json")
	os.WriteFile(ovPath, bb, 0o644)
	timeout := "300s"
	if tier == "thorough" {
		timeout = "3600s"
	}
	cmd := exec.Command("go", "test", "-overlay", ovPath, "-vet=off", "-count=1", "-timeout", timeout, "-run", "^"+b.Test+"$", "-v", ".")
	cmd.Dir = repo
	cmd.Env = append(os.Environ(), "GOFLAGS=-mod=mod", "GOPROXY=off", "GOSUMDB=off", "GOTOOLCHAIN=local", "VERIF_TIER="+tier)
	out, err := cmd.CombinedOutput()
	res.Seconds = time.Since(start).Seconds()
	o := string(out)
	for _, ln := range strings.Split(o, "\n") {
		if i := strings.Index(ln, "VERIF-BOUNDED-STATS"); i >= 0 {
			res.Stats += strings.TrimSpace(ln[i+len("VERIF-BOUNDED-STATS"):]) + " "
		}
	}
	res.Passed = err == nil && strings.Contains(o, "--- PASS")
	if !res.Passed {
		if len(o) > 6000 {
			o = o[:6000]
		}
		res.Output = o
	}
	return res
}

func lineWith(s, sub string) string {
	for _, ln := range strings.Split(s, "\n") {
		if strings.Contains(ln, sub) {
			return strings.TrimSpace(ln)
		}
	}
	return firstLine(s)
}

// applyClaimOnly implements `attr claim-only <label>:<P1>,<P2> ...`: an
// obligation with that label is claimed only by the checks of the listed
// properties (a clause that states a leg of one property on a function that
// other properties also depend on); elsewhere it is dropped and reported.
func (eng *Engine) applyClaimOnly(k, prop string, vc *VC) {
	c := eng.cf.Contracts[k]
	if c == nil || prop == "" {
		return
	}
	for _, item := range strings.Fields(c.Attrs["claim-only"]) {
		kv := strings.SplitN(item, ":", 2)
		if len(kv) != 2 {
			continue
		}
		listed := false
		for _, p := range strings.Split(kv[1], ",") {
			if p == prop {
				listed = true
			}
		}
		if listed {
			continue
		}
		var kept []*Obl
		for _, o := range vc.obls {
			base := o.Name
			if i := strings.Index(base, "~"); i >= 0 {
				base = base[:i]
			}
			if strings.HasSuffix(base, "#"+kv[0]) {
				vc.dropped[o.Kind]++
				continue
			}
			kept = append(kept, o)
		}
		vc.obls = kept
		vc.assumed["clause #"+kv[0]+" of "+k+" is claimed only by the checks of "+kv[1]+" (not by this one)"] = true
	}
}
