package main

import (
	"time"
)

// runCheck is filled in once the first contracts verify (see check_impl).
func runCheck(eng *Engine, prop, tier, verif string, loadS float64, start time.Time) int {
	return runCheckImpl(eng, prop, tier, verif, loadS, start)
}

func runCheckImpl(eng *Engine, prop, tier, verif string, loadS float64, start time.Time) int {
	return 3
}
