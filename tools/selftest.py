#!/usr/bin/env python3
"""Regression run of the whole framework on the tree in /repo.

  ./verif selftest            every claimed property, quick tier: must exit 0, no VIOLATION line,
                              evidence and manifest valid against their schemas
  ./verif selftest --mutants  additionally the must-fail corpus of every property (thorough tier)
  ./verif selftest C03 C10    only these properties
"""
import json, subprocess, sys, time, os

os.chdir("/verif")
args = [a for a in sys.argv[1:] if not a.startswith("--")]
mutants = "--mutants" in sys.argv
man = json.load(open("MANIFEST.json"))
props = [c["property_id"] for c in man["checks"]]
if args:
    props = [p for p in props if p in args]
bad = []
for p in props:
    t0 = time.time()
    tier = "thorough" if mutants else "quick"
    r = subprocess.run(["./verif", "check", p, "--tier", tier], capture_output=True, text=True)
    out = r.stdout
    viol = [l for l in out.splitlines() if l.startswith("VIOLATION")]
    summ = [l for l in out.splitlines() if l.startswith(p + ":")]
    ok = r.returncode == 0 and not viol
    print(("ok   " if ok else "FAIL ") + (summ[0] if summ else p + ": no summary line") + f"  [{time.time()-t0:.0f}s]")
    for l in out.splitlines():
        if l.startswith("KNOWN-FINDING") or l.startswith("VIOLATION") or l.startswith("MUTANT"):
            print("     " + l[:200])
    if not ok:
        bad.append(p)
try:
    import jsonschema
    s = json.load(open("/root/.vp/EVIDENCE.schema.json"))
    for p in props:
        jsonschema.validate(json.load(open(f"evidence/{p}.json")), s)
    jsonschema.validate(man, json.load(open("/root/.vp/MANIFEST.schema.json")))
    print("schemas ok")
except ImportError:
    print("jsonschema not importable with this python: schema validation skipped (use python3-vt)")
print("FAILED: " + " ".join(bad) if bad else "all checks pass")
sys.exit(1 if bad else 0)
