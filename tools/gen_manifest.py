#!/usr/bin/env python3
"""Regenerates /verif/MANIFEST.json from the table below (keeps it valid)."""
import json, subprocess

TECH = "contract-based deductive verification: WP/VC generation over go/ssa of /repo, discharged by z3/cvc5"

# property -> (level text, level note, design ref)
CLAIMED = {
 "C14": ("Unbounded proof, for every segment, key and index density: the key index built by buildIndex/add satisfies the index invariant; "
         "lookup returns a window containing every position that can hold the key and the lower bound of the key; findKeyPos, "
         "findStartKeyInclusivePos, Get and Cursor are proved correct against the index-free specification for ANY window satisfying that contract, "
         "hence results are identical for all index settings.",
         "Assumes: SegmentKeysIndexMaxBytes < 2^32 and average key length <= maxKeyLength (stated preconditions of buildIndex); byte strings abstracted "
         "by an order-embedding rank; products/quotients of two non-constants are uninterpreted functions constrained by lemmas of integer arithmetic; "
         "loading of persisted segments (mmap) is outside these contracts.", "6/C14"),
 "C19": ("Unbounded proof of the byte-level encoding: op-word encode/decode round trip and reserved bits (exact bit-field semantics), size limits of "
         "mutateEx/mutate with earlier operations intact, exact key/value bytes recorded by mutate, Alloc/AllocSet/AllocDel/AllocMerge entries denote "
         "exactly the allocated bytes, Less/Swap order entries bytewise and permute whole triples, getOperationKeyVal/Get return the recorded slices.",
         "Assumes: Alloc* arguments come from Alloc of the same batch with no reallocation in between and the value directly following the key (stated "
         "precondition, the documented usage); sort.Sort (external) permutes by Less/Swap; persistence/compaction/reopen legs of the property are covered "
         "only as far as the C04/C07 contracts reach; DeferredSort/CachePersisted equivalence is not covered by a contract yet.", "6/C19"),
}

CLAIMED["C10"] = ("Unbounded proof that every read path is the same function of the state: segment.Get, segmentStack.get/getMerged/Get are proved equal to the "
  "reference read (newest segment holding the key decides, Del hides older entries, Merge operands applied on top of older levels); Collection.Get is "
  "proved against the read of the concatenated sections (what Get on a fresh Snapshot returns).",
  "Known finding S7/S22 (collection.get :: ensures#agree, reproduced on the real code by witness/s7_direct_get_del_test.go): Collection.Get disagrees with "
  "Snapshot.Get across sections; the code-shaped postcondition ensures#chain pins today's behaviour. Assumed: Segment.Get is a deterministic function of the "
  "segment contents (results named by uninterpreted functions); the lower level is an abstract function llGet; deferred sorting abstracted (segments sorted); "
  "iteration agreement and the NoCopyValue copy in Footer.Get are not under contract yet.", "6/C10")
CLAIMED["C20"] = ("Unbounded proof of the safety half: segmentStack.Stats sums over the whole tree of stacks (map-range invariant over child stacks, recursion by "
  "contract), and statsSegmentsLOCKED reports CurDirtySegments == 0 only if top, mid and base hold no segment in any collection of the tree.",
  "Fixed finding S20 (fix: f464960). Not covered: that an empty dirty tree implies the lower level holds every batch (needs the persister region contracts, "
  "C13; known gap S14: a batch that only deletes a child collection leaves no segment); the progress half (gauges eventually reach zero) is outside this family.", "6/C20")

CLAIMED["C18"] = ("Unbounded proof over all paths of every function that can reach a directory-changing primitive: os.Remove, removeFiles, removeFileOnClose (and its "
  "deferred removal closures) and file creation require the ghost constant readOnlyMode() to be false, and every OpenFile call must pass O_RDONLY when it is true; "
  "the obligations are discharged at every call site in openStore, OpenStore, Persist/persist, compactMaybe, compact, startOrReuseFile/startFileLOCKED/"
  "createNextFileLOCKED, snapshotRevert and collection.Start (merger and persister are spawned only when not ReadOnly). The option fields the mode is linked to are "
  "proved immutable after construction by a store-site scan.",
  "Thin contracts: only the readOnly call-site obligations of these functions are generated (their other obligations belong to other properties). Assumed: writes "
  "through a handle opened O_RDONLY are refused by the OS without effect; the OpenFile callback honours its flag; 'serves exactly the persisted content' is the "
  "open path of C04 and is not decided here. Fixed finding S8 (fix: 8eb6f9b).", "6/C18")

CLAIMED["C07"] = ("Unbounded proof of the structural half of compaction: mergeSegStacks yields footer.ss.a[splice:] ++ higher.a for the collection and, for every child, the "
  "child footer's segments of the SAME incarnation followed by the incoming ones (children compacted fully); spliceFooter restores exactly the retained prefix; the footer "
  "written by writeSegments has one segment, the incarnation of its stack and that stack's children. P0 (no slice out of range) included.",
  "Not under contract yet: that the merged segment written by mergeInto/compactWriter has the same content as the stack it replaces (needs the heap-iterator contract, C09), "
  "absence of deletion markers after full compaction, and removal of superseded files (C15). writeSegments has a thin contract (frame unchecked, I/O abstracted). "
  "Fixed findings S9, S10, S11.", "6/C07")
CLAIMED["C11"] = ("Unbounded proof, level by level over the child trees (recursion by contract, map-range invariants): buildNewFooter, mergeSegStacks, spliceFooter, writeSegments "
  "and revertToSnapshot preserve the set of child collections, keep a child's persisted segments only for the same incarnation (a recreated child starts empty) and "
  "drop deleted children; child maps never hold nil.",
  "Each activation proves its own level and the level below (tree-wide statement by induction over activations, not machine-checked). Not under contract yet: "
  "buildStackDirtyTop/appendChildStacks (in-memory side), restoreCollection, isolation of reads. Known finding S16b (revert drops child data at the next persist); "
  "fixed S9, S10, S11.", "6/C11")
CLAIMED["C12"] = ("Unbounded proof of the history chain: buildNewFooter links every new footer to the footer that was current; snapshotPrevious returns what the recovery scan finds "
  "at exactly that offset of the same file; SnapshotRevert installs a footer with exactly the segment locations (and children) of the target, durably appended via "
  "persistFooter, linked to the footer that was current, and later rounds build on it (buildNewFooter from s.footer).",
  "Assumed: the recovery scan returns the footer at the offset it is started from (C05), persistFooter writes what it is given (trusted here), JSON round trip. "
  "Known finding S16b (child data of a reverted snapshot is dropped by the next persist); fixed S16 (history link).", "6/C12")

CLAIMED["C05"] = ("Unbounded proof of the parts of crash safety a contract on moss can carry: (1) the recovery scan ScanFooter, for EVERY file content and size (file reads return "
  "arbitrary bytes), never panics or allocates a negative size and, unless a file operation failed, ends with a footer or ErrNoValidFooter - torn tails, half written footers, "
  "look-alikes of the magic and garbage are skipped; (2) persistFooter never writes a footer while earlier writes are unsynced and returns success only with everything synced "
  "(unless NoSync); (3) the footer is placed at the first page boundary at or after the end of the file, every WriteAt is at or beyond the known file size (append-only).",
  "The crash model (which images a crash can leave, that Sync makes writes durable, directory operation ordering) is assumed; that the scan returns the LAST complete footer and that "
  "openStore falls back to an older file are not under contract yet (S3: header-less newest file, not fixed). binary.Read on in-memory buffers trusted not to fail; loadSegments assumed to "
  "fail only on I/O failure. Fixed findings S1, S2.", "6/C05")
CLAIMED["C06"] = ("Unbounded proof of error propagation and non-publication for every sequence of file-operation results (each File call returns a nondeterministic result; a short write "
  "counts as a failure): persistFooter/persistFooterUnsynced report any failed or short write or sync; the writer goroutine of bufferedSectionWriter hands a failure back as an "
  "error; Store.persist, compact and compactMaybe leave s.footer untouched whenever they return an error.",
  "persistBasicSegment (two goroutines reporting over a channel), persistHeader and the Stop()/Flush() side of the buffered writer are not under contract (channel protocol not modelled; "
  "covered by witness test only); runPersister's retry (same stack offered again) belongs to C13; the progress half (catches up afterwards) is outside this family. Fixed finding S6.", "6/C06")
CLAIMED["C09"] = ("Unbounded proof for the single-segment path: findStartKeyInclusivePos is the lower bound for any index window; Cursor/segmentCursor Current/Next/Seek/nextDelta; "
  "iteratorSingle.Next moves to the smallest later enumerated position (deletions skipped unless asked for), stays done once done, terminates (measure); CurrentEx/Current return the "
  "entry under the cursor; SeekTo(x) lands on the smallest enumerated in-range position with key >= x for forward, backward and after-exhaustion seeks, including the naiveSeekTo loop.",
  "The general heap iterator (iterator.Next/SeekTo over container/heap) is not under contract (planned as a bounded stand-in, not counted as proved); merge resolution in "
  "iterator.Current belongs to C08. Fixed finding S23 (found by the verifier).", "6/C09")
CLAIMED["C15"] = ("Unbounded proof of the reference accounting primitives: FileRef/mmapRef/Footer/segmentStack/SnapshotWrapper AddRef/DecRef change exactly one count by one; at zero the "
  "next level is released exactly once (file closed and dropped, mapping dropped and its file count released, footer drops its locations and the count it holds on every child footer, "
  "nothing at its level or above is touched); counts above zero keep file, mapping and locations; Store.snapshot adds exactly one count to the current footer.",
  "Exact accounting across shared mappings/files (SegmentLocs.AddRef/DecRef over possibly shared mmapRefs) is trusted, as are Unmap/Close/Remove; per-function balance of persist/compact/"
  "snapshotPrevious is not under contract yet; footer trees assumed to be trees (ghost depth). Fixed findings S12, S17.", "6/C15")

CLAIMED["C01"] = ("Unbounded proof of the per-step legs of 'reads reflect the executed batches': (a) the read path - segment.Get/findKeyPos, segmentStack.get/getMerged/Get - equals the reference "
  "read of the stack (newest entry decides, Del hides, empty value is a non-nil empty slice: loadBasicSegment gives a loaded segment a non-nil buf); (b) every state change of the "
  "collection keeps that read unchanged or adds exactly the batch: ExecuteBatch installs top ++ [batch segment] in one critical section and drops the cached snapshot, the merger "
  "callback moves the already merged stack to mid and empties top, mergerNotifyPersister and the persister only move sections between slots; sections stay well-formed sorted stacks "
  "(lock invariant).",
  "The whole-history statement (every history x schedule equals a reference map) is the composition of these steps and is NOT machine-checked as one theorem: collection.snapshot's "
  "concatenation of the sections has a thin contract (call-site obligations only), merge()/mergeInto content equivalence (merged segment == stack it replaces) and the heap iterator are not "
  "under contract, batches with DeferredSort are excluded by precondition. Fixed finding S5.", "6/C01")
CLAIMED["C02"] = ("Unbounded proof of the mechanisms that keep a snapshot frozen: buildStackDirtyTop (every ExecuteBatch) builds a FRESH stack with a fresh segment array and copies the old "
  "entries (copy-on-write: the stack a snapshot holds is never written), Store.snapshot adds exactly one count to the footer it returns, Footer.DecRef releases segment locations and child "
  "footers only when the count reaches zero, counts above zero keep file, mapping and locations (with C15).",
  "Not under contract: collection.snapshot's copying of the section pointers (thin contract), iterator stability, the mmap layer (munmap only at refcount zero is proved in mmapRef.DecRef "
  "under C15; the OS keeping an unlinked mapped file readable is assumed). The whole-history statement is not machine-checked as one theorem. Fixed findings S12, S17.", "6/C02")
CLAIMED["C03"] = ("Unbounded proof, for every interleaving at lock granularity (guarded fields are havocked at every acquire, the lock invariant is all that is known): ExecuteBatch publishes "
  "a batch in exactly one critical section - the new top is old top ++ [batch segment] with all child segments in the same new stack, cached snapshot dropped, other sections untouched - and "
  "publishes nothing on its early-exit paths; Snapshot() reads all sections inside one critical section and changes none; the merger callback swaps mid/top in the same critical section; "
  "every access to a guarded field is proved to happen with collection.m held.",
  "Order within one writer follows from ExecuteBatch being synchronous (not a contract). The prefix-monotonicity statement over successive snapshots is a consequence of the region "
  "contracts argued in DESIGN.md, not a machine-checked theorem; child-collection installation is proved at the stack level (buildStackDirtyTop loops), not per key.", "6/C03")
CLAIMED["C04"] = ("Unbounded proof of the layout and load legs: page arithmetic (pageAlignCeil/Floor/pageOffset, exact), buildNewFooter carries every old location plus one per persisted "
  "segment and every child footer, loadBasicSegment views exactly the byte ranges a location names (lengths, offsets, totals; non-nil buf for empty key/value bytes).",
  "Not under contract: persistBasicSegment/persistHeader writing the bytes the location later names (goroutine/channel protocol), ReadFooter/loadSegments/JSON round trip (trusted external), "
  "the prefix statement for an early Close (persister schedule). Reopen equality is therefore decided only as far as these legs reach. Fixed finding S5.", "6/C04")
CLAIMED["C08"] = ("Unbounded proof for point reads and the iterator's Current: segmentStack.get/getMerged fold the operands from the newest level down - each operand applied exactly once over "
  "the value of the levels strictly below (or base, or lower level) - against the recursive reference stackRead; iteratorSingle.Current and iterator.Current/CurrentEx resolve a Merge entry "
  "by the same read strictly below the entry's level with the configured operator.",
  "MergeOperator.FullMerge is an uninterpreted deterministic function (any operator, commutative or not). Not under contract: mergeInto/compaction resolving or preserving operands when "
  "segments are merged (needs the heap iterator contract), reopen. Known finding S7 (Collection.Get vs sections) is reported under C10.", "6/C08")
CLAIMED["C13"] = ("Unbounded proof of the hand-over protocol at lock granularity: mergerNotifyPersister moves mid into base only when base is empty, in one critical section, signalling the "
  "persister, and never overwrites a base that is still being persisted; runPersister offers exactly stackDirtyBase to LowerLevelUpdate, on success installs the returned snapshot and "
  "clears base in one critical section (CachePersisted: moves it to clean), on failure keeps base so the same stack is offered again.",
  "Not under contract: that the stack offered contains exactly the not-yet-persisted mutations in order (needs merge() content equivalence), the documented consumer protocol (iterate with "
  "deletions, resolve merges with Get), and liveness (drains eventually). LowerLevelUpdate is an unknown callback assumed not to re-enter the collection.", "6/C13")
CLAIMED["C16"] = ("Unbounded proof of the safety half: lock invariant 'at most MaxPreMergerBatches segments in top' holds at every release of collection.m in every function under contract; "
  "after Close, NewBatch/Snapshot/Get/ExecuteBatch(non-empty) return ErrClosed; Close closes stopCh and broadcasts both condition variables inside the critical section; the merger callback "
  "and ResetStackDirtyTop wake blocked writers whenever they make room; ExecuteBatch's wait loop re-checks closed after every wake-up; every function releases the lock on every path.",
  "The liveness half (calls return in bounded time) is outside this family: proved are the wake-up obligations (no missed signal at the points where room is made), not termination of "
  "waiting. Channel-based notification (pingMergerCh, awakePersisterCh) is abstracted. Fixed finding S18.", "6/C16")

NA_REASONS = {
 "C17": "data-race freedom in the Go memory model is a whole-program property over every access (incl. runtime, mmap-go, ghistogram); no contract within reach of a "
        "sequential VC generator decides it (DESIGN.md section 7)",
}
DEFAULT_NA = "contracts for this property are not built yet (work in progress; DESIGN.md section 11) - not claimed rather than backed by another technique"

props = [json.loads(l)["id"] for l in open("/verif/properties.jsonl")]
hooks_commits = subprocess.run(["git", "-C", "/repo", "log", "--format=%H %s", "--", "verif_contracts.go"], capture_output=True, text=True).stdout.strip().splitlines()
checks = []
for p in props:
    if p in CLAIMED:
        text, note, ref = CLAIMED[p]
        checks.append({
            "property_id": p,
            "quick_cmd": f"./verif check {p} --tier quick",
            "thorough_cmd": f"./verif check {p} --tier thorough",
            "evidence_file": f"/verif/evidence/{p}.json",
            "replay_cmd_template": "./verif replay {path}",
            "engine": "govc",
            "level_claimed": {"category": "proof", "text": text, "design_ref": "DESIGN.md " + ref},
            "level_note": note,
            "technique": TECH,
        })
m = {
 "version": 1,
 "setup_cmd": "cd /verif && ./verif setup",
 "hooks": {"guard": "verif",
           "enable": "go build -tags verif (the only hook is /repo/verif_contracts.go: a comment-only contract file with a //go:build verif constraint)",
           "baseline_off_cmd": "cd /repo && go test -mod=mod -json -vet=off -count=1 -timeout 25m ./...",
           "source_commits": [c.split()[0] for c in hooks_commits],
           "add_only": True},
 "engines": [{"name": "govc", "path": "/verif/govc", "serves_properties": sorted(CLAIMED),
              "kind_free_text": "self-written verification-condition generator over go/ssa (x/tools v0.29.0, vendored) for Gobra-style contracts kept in /repo/verif_contracts.go; "
                                "obligations discharged by a portfolio of z3 5.1.0, z3 4.8.12 and cvc5 1.0"}],
 "checks": checks,
 "not_applicable": [{"property_id": p, "reason": NA_REASONS.get(p, DEFAULT_NA)} for p in props if p not in CLAIMED],
 "notes": "See DESIGN.md. Known findings: /verif/known_findings.json. Must-fail corpus: /verif/mutants (./verif selftest).",
}
json.dump(m, open("/verif/MANIFEST.json", "w"), indent=1)
print("claimed:", sorted(CLAIMED))
