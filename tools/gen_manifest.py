#!/usr/bin/env python3
"""Regenerates /verif/MANIFEST.json from the table below (keeps it valid)."""
import json, subprocess

TECH = "contract-based deductive verification: WP/VC generation over go/ssa of /repo, discharged by z3/cvc5"

# property -> (level text, level note, design ref)
BOUNDED = (" A bounded stand-in (labelled bounded in the evidence, never counted as proved) runs with the check: exhaustive small scope on the real heap iterator and "
           "mergeInto (keys \"\",a,b; absent|Set|Del|Merge per key; stacks of <= 2 levels exhaustively plus seeded 3-level samples in quick, all <= 3 levels in thorough) against a reference fold.")

CLAIMED = {}
CLAIMED["C01"] = ("Unbounded proof of the per-step legs of 'reads reflect the executed batches': (a) the read path - segment.Get/findKeyPos/mutateEx, segmentStack.get/getMerged/Get - equals the "
  "reference read of a stack (newest entry decides, Del hides, empty value is a non-nil empty slice); (b) collection.snapshot hands out exactly the unskipped sections in the order clean, base, "
  "mid, top over the collection's lower level and changes no section (proved for the path that holds the lock; the merger passes exactly the flags for mid++top); (c) every state change keeps "
  "that read or adds exactly the batch: ExecuteBatch installs top ++ [batch segment] in one critical section, the merger callback moves the merged stack to mid and empties top, "
  "mergerNotifyPersister and the persister only move sections between slots, merge() keeps the untouched older levels and replaces the rest by ONE segment that mergeInto produced with "
  "tombstones kept unless nothing lies below; isEmpty/Stats speak about the whole tree of child stacks." + BOUNDED,
  "The whole-history statement is the composition of these steps and is NOT machine-checked as one theorem. Trusted: mergeInto's content (only its call-site preconditions and the shape "
  "of the result are proved; the bounded stand-in exercises it), sort.Sort. snapshot()'s lock-taking path (merger) and the child-stack part of appendChildStacks are assumed (see "
  "callee_contracts_relied_on). The heap iterator's set-up (one source per non-empty level), its order (iterator.Less) and the cursor mirror preserved by Next are proved (see C09); ensureSorted is verified against a trusted ticket contract of RequestSort (every requested level has completed sorting, also one another goroutine is sorting); its callers treat it as a no-op because their contracts admit only stacks without pending sort tickets (DeferredSort batches excluded by ExecuteBatch's precondition). Fixed findings S5, S26.", "13/C01")
CLAIMED["C02"] = ("Unbounded proof of the mechanisms that keep a snapshot frozen: buildStackDirtyTop (every ExecuteBatch) builds a FRESH stack with a fresh segment array and carries the "
  "nested child stacks over; ExecuteBatch drops the cached snapshot in the same critical section; collection.snapshot copies the section contents into a fresh stack and changes no section; "
  "ChildCollectionSnapshot and Store.snapshot add exactly one count; Footer.DecRef releases locations and child footers only at count zero; Footer.Get returns a private copy unless NoCopyValue; path by path (return-site clauses) Store.persist hands out only counted footers, gives the round's footer back when writing it fails, releases it only after its segments were loaded and ends with exactly two counts; SegmentLocs.AddRef (now verified) and revertToSnapshot add a count on every mapping they share; mergerNotifyPersister counts the lower level it re-points the base section at.",
  "iterator.SeekTo is proved not to release the iterator's closer. Not under contract: the mmap layer below mmapRef (OS keeps an unlinked mapped file readable: assumed). Whole-history "
  "statement not machine-checked. Fixed S12, S17, S24 (witness only), S29.", "13/C02")
CLAIMED["C03"] = ("Unbounded proof at lock granularity (guarded fields are havocked at every acquire; only the lock invariant is known): ExecuteBatch publishes a batch in exactly one critical "
  "section - new top = old top ++ [batch segment], child segments in the same new stack (nested child stacks carried over), cached snapshot dropped, other sections untouched - and publishes "
  "nothing on its early exits; Snapshot() reads all sections inside one critical section and changes none; the merger callback swaps mid/top in one critical section; every access to a guarded "
  "field is proved to hold collection.m.",
  "Known finding S7 (Collection.Get does not see a Del/Merge of a newer section; reported under C03 and C10, pinned by ensures#chain). Prefix monotonicity of successive snapshots is a "
  "consequence argued in DESIGN.md, not a machine-checked theorem. DeferredSort: ensureSorted's waiting is proved against the trusted ticket contract of RequestSort (seeds C03/3, C01/r4-1, C09/r4-2); readyDeferredSort/doSort of nested child batches stay outside (seeds C03/r2-2, C09/r4-3).", "13/C03")
CLAIMED["C04"] = ("Unbounded proof of the layout and load legs: page arithmetic (exact), buildNewFooter carries every old location plus one per persisted segment and every live child footer, "
  "compaction (mergeSegStacks/spliceFooter/writeSegments) keeps the incarnations and children, loadBasicSegment views exactly the byte ranges a location names (non-nil buf), isEmpty says "
  "'nothing to persist' only for an empty tree, the merger never overwrites a base that is being persisted, restoreCollection keeps the incarnation counter above every restored child; persistBasicSegment returns page-aligned, non-overlapping sections at or after the requested position with the segment's totals; openStore tries the data files newest first.",
  "Not under contract: the byte counts persistBasicSegment's writer goroutines report over their channel, persistHeader, ReadFooter/JSON round trip (trusted), the prefix statement for an early Close. "
  "Fixed S5, S27 (reopen failed when a superseded file vanished during cleanup; witness only).", "13/C04")
CLAIMED["C05"] = ("Unbounded proof of the parts of crash safety a contract on moss can carry: (1) ScanFooter, for EVERY file content (reads return arbitrary bytes), never panics or allocates a "
  "negative size, ends with a footer or ErrNoValidFooter unless a file operation failed, and the footer it returns records the position it was found at; (2) persistFooter never writes a "
  "footer while earlier writes are unsynced and succeeds only with everything synced (unless NoSync); (3) append-only: footers and compaction sections are placed at or beyond the known "
  "file size; (4) a compaction configured with CompactionSync/CompactionSyncAfterBytes succeeds only with everything synced; a failing writeSegments schedules no file for removal. All blocks of ScanFooter are proved reachable (vacuity covers).",
  "The crash model (which images a crash can leave, Sync durability, directory ordering) is assumed; 'LAST complete footer' is not under contract; of openStore's fallback it is proved that the files are tried newest first (a loop measure) and that, once candidates exist, only a failed "
  "removal of superseded files is fatal - an unusable newer file is skipped (S3, fixed). encoding/json sets exported fields only (trusted). Fixed S1, S2, S3.", "13/C05")
CLAIMED["C06"] = ("Unbounded proof of error propagation and non-publication for every sequence of file-operation results (each File call returns a nondeterministic result; a short write is a "
  "failure): persistFooter/persistFooterUnsynced report any failed or short write or sync; the writer goroutine of bufferedSectionWriter hands a failure back; Store.persist, compact and "
  "compactMaybe leave s.footer untouched whenever they return an error; a failed round never schedules a pre-existing (live) file for removal and a failed full compaction schedules the file "
  "it started; persistSegments and writeSegments propagate a failure from any depth of the tree of child collections; a footer whose segment writes or loads failed is not released (it owns no counts), one whose write failed is.",
  "persistBasicSegment, persistHeader and Stop()/Flush() are not under contract (channel protocol abstracted; witness only); the path argument of os.Remove is not modelled (seed C06/3). "
  "Ghost 'doomed file' is set by an assumed postcondition of removeFileOnClose. Fixed S6.", "13/C06")
CLAIMED["C07"] = ("Unbounded proof of the structural half of compaction: mergeSegStacks yields footer.ss.a[splice:] ++ higher.a with NO lower level, and for every child the child footer's segments "
  "of the SAME incarnation followed by the incoming ones (children compacted fully); spliceFooter restores exactly the retained prefix; the footer written by writeSegments has one segment, "
  "the incarnation and the children of its stack; merge()/writeSegments call mergeInto with tombstones kept unless nothing lies below; failed rounds clean up the file they started and give back the count they took on the output file; a full compaction whose before-size was measured has scheduled a file for removal; child collections are compacted with the parent's tombstone setting; mergeInto's raw tail copy is only used when deletions are kept.",
  "Content equality of the merged segment is mergeInto's trusted contract (bounded stand-in under C08/C09); WHICH file a successful full compaction schedules is not decided (only that one is), nor the reference balance of its success path. "
  " Fixed S9, S10, S11, S28 (compaction without incoming data dropped the children).", "13/C07")
CLAIMED["C08"] = ("Unbounded proof for point reads and Current: get/getMerged fold the operands from the newest level down, each applied exactly once over the value of the levels strictly below "
  "(or base, or lower level); iteratorSingle.Current and iterator.Current/CurrentEx resolve a Merge entry by the same read; merge() passes each child the base of the SAME incarnation and "
  "keeps tombstones unless nothing lies below; the compaction stack has no lower level (operands are not folded twice)." + BOUNDED,
  "MergeOperator.FullMerge is an uninterpreted deterministic function. What mergeInto writes is trusted (the bounded stand-in compares it with the reference, incl. over a base and a lower "
  "level). Reopen not covered.", "13/C08")
CLAIMED["C09"] = ("Unbounded proof for the single-segment path: findStartKeyInclusivePos is the lower bound for any index window; cursors; iteratorSingle.Next/CurrentEx/Current/SeekTo incl. the "
  "naiveSeekTo loop (order, range, deletions skipped unless asked for, termination); StartIterator degrades to the single-segment iterator only when exactly one source had entries." + BOUNDED,
  "Of the general heap iterator three legs are now proved (session 3): startIterator adds exactly one cursor per level that has an entry in the range (count invariant over a recursive spec function - no level is passed over, whatever its first entry is); iterator.Less orders by key and, for equal keys, newer level first; iterator.Next preserves 'every cursor mirrors the entry under its segment cursor and is not exhausted' (container/heap trusted to permute the cursors; that startIterator ESTABLISHES this is not proved, so it is an assumption at Next's call sites). Order and completeness of the enumeration (what Next/SeekTo yield) remain covered ONLY by the bounded stand-in - not a proof. The key-index lookup (C14) and ensureSorted (deferred sort waits for every requested level) are part of this check. Fixed S23 (found by the verifier), S26 (found by the bounded stand-in).", "13/C09")
CLAIMED["C10"] = ("Unbounded proof that every point-read path is the same function of the state: segment.Get, segmentStack.get/getMerged/Get equal the reference read; Collection.Get is proved "
  "against the sections its own critical section saw; Footer.Get copies unless NoCopyValue." + BOUNDED,
  "Known finding S7/S22 (collection.get :: ensures#agree, witness test): Collection.Get disagrees with Snapshot.Get across sections; ensures#chain pins today's behaviour. Iteration agreement "
  "only through the bounded stand-in.", "13/C10")
CLAIMED["C11"] = ("Unbounded proof, level by level over the child trees (recursion by contract, accumulating map-range invariants): buildStackDirtyTop carries nested child stacks and gives every "
  "new child a strictly larger incarnation number; buildNewFooter, mergeSegStacks, spliceFooter, writeSegments, merge and revertToSnapshot preserve the set of children, keep persisted "
  "segments only for the same incarnation and drop deleted children; child maps never hold nil; ChildCollectionSnapshot counts.",
  "Each activation proves its level and the level below; the tree-wide statement is by induction over activations (not machine-checked); collection/footer trees are assumed trees (ghost "
  "depth) and a call on a child is assumed to touch only its subtree. appendChildStacks leaves the child stack of a dropped or re-created child alone (incarnation filter proved); emptyStackLike is proved one level deep only (seed C11/r4-2 is caught through its loop contract, not a tree predicate). appendChildLLSnapshot (S15) not under contract. Known finding S16b; fixed S9, S10, S11, S28.", "13/C11")
CLAIMED["C12"] = ("Unbounded proof of the history chain: buildNewFooter links every new footer to the footer that was current; ScanFooter records the position a footer was found at; "
  "snapshotPrevious returns what the scan finds at exactly the linked offset of the same file; SnapshotRevert installs a footer with exactly the locations and ALL children of the target, "
  "durably appended, linked to the footer that was current.",
  "Assumed: JSON round trip, the scan's abstract result function. Known finding S16b (reverted child data dropped by the next persist); fixed S16.", "13/C12")
CLAIMED["C13"] = ("Unbounded proof of the hand-over protocol at lock granularity: mergerNotifyPersister moves mid into base only when base is nil, in one critical section, signalling the persister; "
  "runPersister offers stackDirtyBase, on success installs the returned snapshot and clears base in one critical section (CachePersisted: moves it to clean), on failure keeps base; "
  "snapshot() composes the sections in the documented order with the documented skip flags; get() consults base before the lower level; merge keeps what it must.",
  "Not under contract: the consumer protocol (iterate with deletions, resolve merges), liveness. LowerLevelUpdate is an unknown callback assumed not to re-enter the collection.", "13/C13")
CLAIMED["C14"] = ("Unbounded proof, for every segment, key and index density: the key index built by buildIndex/add satisfies the index invariant; lookup returns a window containing every "
  "position that can hold the key; findKeyPos, findStartKeyInclusivePos, Get and Cursor are correct for ANY window satisfying that contract, hence identical for all index settings.",
  "Assumes SegmentKeysIndexMaxBytes < 2^32 and average key length <= maxKeyLength (stated preconditions); byte strings through an order embedding; products/quotients of two non-constants "
  "uninterpreted with lemmas.", "13/C14")
CLAIMED["C15"] = ("Unbounded proof of the reference accounting primitives: FileRef/mmapRef/Footer/segmentStack/SnapshotWrapper AddRef/DecRef/segmentLocs change exactly one count by one; at zero "
  "the next level is released exactly once; counts above zero keep file, mapping and locations; Store.snapshot and ChildCollectionSnapshot add exactly one count; failed compaction rounds "
  "schedule exactly the file they started for removal; per return site: Store.persist (counted hand-outs, footer given back on a failed write, two counts on success), compact's error paths (the count on the output file is given back), snapshotPrevious (no file count kept when nothing is returned), revertToSnapshot (fresh, singly counted child footers; a count on every shared mapping); Store.Close releases the store's count on its footer exactly when the last handle goes.",
  "SegmentLocs.DecRef and Footer.loadSegments trusted; the success path of compact and mergerMain's error paths are not under contract (seed C15/r4-1). iterator.SeekTo releases nothing (ghost count "
  "of Close calls). Fixed S12, S17, S24 (witness only), S29 (a stack releases its child stacks).", "13/C15")
CLAIMED["C16"] = ("Unbounded proof of the safety half: lock invariant 'at most MaxPreMergerBatches segments in top' at every release of collection.m; after Close, NewBatch/Snapshot/Get/"
  "ExecuteBatch(non-empty) return ErrClosed; Close closes stopCh and broadcasts both condition variables inside the critical section and leaves no cached snapshot; the merger callback and "
  "ResetStackDirtyTop wake blocked writers; ExecuteBatch's wait loop re-checks; the merger's wait for the persister also listens on stopCh.",
  "Liveness (calls return in bounded time) is outside this family: proved are the wake-up obligations, not termination. Fixed S18.", "13/C16")
CLAIMED["C18"] = ("Unbounded proof over all paths of every function that can reach a directory-changing primitive: os.Remove, removeFiles, removeFileOnClose (and its deferred closures) and file "
  "creation require the ghost constant readOnlyMode() to be false, and every OpenFile call passes O_RDONLY when it is true; discharged at every call site in openStore, OpenStore, Persist/"
  "persist, compactMaybe, compact, startOrReuseFile/startFileLOCKED/createNextFileLOCKED, snapshotRevert, collection.Start and runMerger/runPersister.",
  "Thin contracts: only the readOnly call-site obligations of these functions. Assumed: writes through an O_RDONLY handle are refused by the OS; the OpenFile callback honours its flag. "
  "Fixed S8.", "13/C18")
CLAIMED["C19"] = ("Unbounded proof of the byte-level encoding: op-word encode/decode round trip and reserved bits (exact bit-field semantics), size limits of mutateEx/mutate with earlier "
  "operations intact, exact key/value bytes recorded, Alloc/AllocSet/AllocDel/AllocMerge, Less/Swap, getOperationKeyVal/Get; ScanFooter is total on arbitrary bytes.",
  "Assumes Alloc* arguments come from Alloc of the same batch with no reallocation in between (documented usage; S19); sort.Sort trusted; DeferredSort of child batches (seed C19/3) excluded "
  "by precondition.", "13/C19")
CLAIMED["C20"] = ("Unbounded proof of the safety half: Stats sums over the whole tree of stacks, statsSegmentsLOCKED reports CurDirtySegments == 0 only if top, mid and base hold no segment in any "
  "collection of the tree, isEmpty is true only for an empty tree, buildStackDirtyTop does not lose nested child stacks, merge keeps tombstones while something lies below.",
  "Not covered: that an empty dirty tree implies the lower level holds every batch (S14: a batch that only deletes a child leaves no segment); "
  "progress. The merger is proved to sleep only when the top section's whole tree is empty (mergerWaitForWork). Fixed S20, S25.", "13/C20")

NA_REASONS = {
 "C17": "data-race freedom in the Go memory model is a whole-program property over every access (incl. runtime, mmap-go, ghistogram); no contract within reach of a "
        "sequential VC generator decides it (DESIGN.md section 7)",
}
DEFAULT_NA = "not claimed"

props = [json.loads(l)["id"] for l in open("/verif/properties.jsonl")]
hooks_commits = subprocess.run(["git", "-C", "/repo", "log", "--format=%H %s", "--", "verif_contracts.go"], capture_output=True, text=True).stdout.strip().splitlines()
checks = []
for p in props:
    if p in CLAIMED:
        text, note, ref = CLAIMED[p]
        checks.append({
            "property_id": p,
            "quick_cmd": f"./verif check {p} --tier quick",
            "thorough_cmd": f"./verif check {p} --tier thorough",
            "evidence_file": f"/verif/evidence/{p}.json",
            "replay_cmd_template": "./verif replay {path}",
            "engine": "govc",
            "level_claimed": {"category": "proof", "text": text, "design_ref": "DESIGN.md section " + ref},
            "level_note": note,
            "technique": TECH,
        })
m = {
 "version": 1,
 "setup_cmd": "cd /verif && ./verif setup",
 "hooks": {"guard": "verif",
           "enable": "go build -tags verif (the only hook is /repo/verif_contracts.go: a comment-only contract file with a //go:build verif constraint)",
           "baseline_off_cmd": "cd /repo && go test -mod=mod -json -vet=off -count=1 -timeout 25m ./...",
           "source_commits": [c.split()[0] for c in hooks_commits],
           "add_only": True},
 "engines": [{"name": "govc", "path": "/verif/govc", "serves_properties": sorted(CLAIMED),
              "kind_free_text": "self-written verification-condition generator over go/ssa (x/tools v0.29.0, vendored) for Gobra-style contracts kept in /repo/verif_contracts.go; "
                                "obligations discharged by a portfolio of z3 5.1.0, z3 4.8.12 and cvc5 1.0"}],
 "checks": checks,
 "not_applicable": [{"property_id": p, "reason": NA_REASONS.get(p, DEFAULT_NA)} for p in props if p not in CLAIMED],
 "notes": "See DESIGN.md Part II (sections 12-19) for the framework as built. Known findings: /verif/known_findings.json (witness tests in /verif/witness). Must-fail corpora: /verif/mutants (own, 78 patches: 72 detected at the end of session 2, 6 written and detected in session 3; 6 of the old ones re-run after the engine changes of session 3) and /verif/seeded (150 changes by blind agents in four rounds; 61 detected at first pass, 139 by the final checks; DESIGN.md section 17). Bounded stand-in (labelled bounded): /verif/bounded. ./verif selftest runs everything.",
}
json.dump(m, open("/verif/MANIFEST.json", "w"), indent=1)
print("claimed:", sorted(CLAIMED))
