#!/usr/bin/env python3
# usage: mkmut.py <name> <file> <old> <new> [nth]  -- writes /verif/mutants/<name>.patch
import sys, subprocess, tempfile, os
name, f, old, new = sys.argv[1:5]
nth = int(sys.argv[5]) if len(sys.argv) > 5 else 1
s = open('/repo/'+f).read()
idx = -1
for _ in range(nth):
    idx = s.index(old, idx+1)
t = s[:idx] + new + s[idx+len(old):]
d = tempfile.mkdtemp()
os.makedirs(d+'/a'); os.makedirs(d+'/b')
open(d+'/a/'+f,'w').write(s); open(d+'/b/'+f,'w').write(t)
r = subprocess.run(['diff','-u','a/'+f,'b/'+f],cwd=d,capture_output=True,text=True)
open('/verif/mutants/'+name+'.patch','w').write(r.stdout)
subprocess.run(['rm','-rf',d])
print(''.join(l+'\n' for l in r.stdout.splitlines() if l[:1] in '+-' and l[:3] not in ('---','+++')),end='')
