#!/usr/bin/env python3
"""Builds the seeded-change matrix (DESIGN.md section 17) from an evaluation log.

usage: seedmatrix.py <seed.log>   (lines: DETECTED|MISSED seeded/<PROP>/<n>/ (..s) <failed obligations>)
"""
import json, sys, re, os
WHY_MISSED = {
 "C03/3": "DeferredSort is excluded by the precondition of the ExecuteBatch/stack contracts (segments are assumed sorted); ensureSorted is not under contract",
 "C19/3": "same: DeferredSort (readyDeferredSort of child batches) is outside the contracts",
 "C06/3": "the path argument of os.Remove is a string expression; strings are not modelled beyond equality",
 "C07/2": "that a SUCCESSFUL full compaction schedules the superseded file is not decided (compact is `modifies *`; the ghost reclamation state cannot be carried through it)",
}
log = sys.argv[1]
rows = {}
for ln in open(log):
    m = re.match(r'(DETECTED|MISSED) seeded/(C\d+)/(\d+)/ ?(.*)', ln.strip())
    if not m:
        continue
    st, p, n, rest = m.groups()
    rest = re.sub(r'^\S* \S* \(\d+s\)\s*|^\(\d+s\)\s*', '', rest)
    rows[(p, int(n))] = (st, rest.strip())
det = sum(1 for v in rows.values() if v[0] == "DETECTED")
print(f"{det} of {len(rows)} seeded changes are detected by the check of their own property.\n")
print("| seed | change (file: function) | caught by |")
print("|---|---|---|")
for (p, n) in sorted(rows):
    st, rest = rows[(p, n)]
    meta = {}
    try:
        meta = json.load(open(f"/verif/seeded/{p}/{n}/meta.json"))
    except Exception:
        pass
    title = meta.get("title", "")
    files = ",".join(meta.get("files", []))
    fns = ",".join(meta.get("functions", []))[:60]
    if st == "DETECTED":
        obl = rest.split(" | ")[0]
        if obl.startswith("bounded stand-in"):
            obl = "bounded stand-in (iterator/mergeInto harness)"
        else:
            obl = "`" + obl + "`"
        caught = obl
    else:
        caught = "**missed** - " + WHY_MISSED.get(f"{p}/{n}", "not under contract")
    print(f"| {p}/{n} | {title} ({files}: {fns}) | {caught} |")
