#!/usr/bin/env python3
"""Builds the seeded-change matrix (DESIGN.md section 17) from an evaluation log.

usage: seedmatrix.py <seed.log>   (lines: DETECTED|MISSED seeded/<PROP>/<n>/ (..s) <failed obligations>)
"""
import json, sys, re, os
WHY_MISSED = {
 "C13/r4-1": "inside mergeInto (trusted): a Merge entry resolving to an empty, non-nil value; the bounded stand-in uses an operator that never yields an empty value",
 "C07/r4-2": "iterator.SeekTo has only the 'releases nothing' clause; that the REPLACED lower-level iterator is closed (and so stops pinning a footer and its file) is not stated - startIterator may itself close iterators, so a count of Close calls is not a function of the arguments",
 "C09/r4-3": "batch.doSort is a trusted contract (sort.Sort); its recursion into nested child batches is assumed - a tree-deep 'sorted' predicate over batches whose kvs arrays may alias is not provable in the encoding",
 "C15/r4-1": "mergerMain (the merger's error path) is not under contract",
 "C19/3": "same: DeferredSort (readyDeferredSort of child batches) is outside the contracts",
 "C06/3": "the path argument of os.Remove is a string expression; strings are not modelled beyond equality",
 "C03/r2-2": "DeferredSort (readyDeferredSort of nested child batches) is outside the contracts",
 "C05/r2-2": "the order in which openStore tries the data files is not under contract (openStore has only the ReadOnly call-site obligations)",
 "C06/r2-1": "persistBasicSegment (two writer goroutines reporting over a channel) is not under contract",
 "C08/r3-3": "inside mergeInto (trusted); the bounded stand-in uses an operator that never yields an empty value",
 "C18/r3-2": "which directory entries openStore accepts as data files is not under contract (strings are not modelled)",
 "C19/r3-2": "collection.get is checked under C10/C03 (the seed is caught there by ensures#chain); it is not tagged C19 because its known finding S7 is not a C19 violation",
}
log = sys.argv[1]
rows = {}
for ln in open(log):
    m = re.match(r'(DETECTED|MISSED) seeded/(C\d+)/((?:r[234]-)?\d+)/ ?(.*)', ln.strip())
    if not m:
        continue
    st, p, n, rest = m.groups()
    rest = re.sub(r'^\S* \S* \(\d+s\)\s*|^\(\d+s\)\s*', '', rest)
    rows[(p, n)] = (st, rest.strip())
det = sum(1 for v in rows.values() if v[0] == "DETECTED")
print(f"{det} of {len(rows)} seeded changes are detected by the check of their own property.\n")
print("| seed | change (file: function) | caught by |")
print("|---|---|---|")
def order(k):
    p, n = k
    rnd = 0
    if n.startswith("r2-"):
        rnd = 1
    if n.startswith("r3-"):
        rnd = 2
    if n.startswith("r4-"):
        rnd = 3
    return (p, rnd, int(n.split("-")[-1]))
for (p, n) in sorted(rows, key=order):
    st, rest = rows[(p, n)]
    meta = {}
    try:
        meta = json.load(open(f"/verif/seeded/{p}/{n}/meta.json"))
    except Exception:
        pass
    title = meta.get("title", "")
    files = ",".join(meta.get("files", []))
    fns = ",".join(meta.get("functions", []))[:60]
    if st == "DETECTED":
        obl = rest.split(" | ")[0]
        if obl.startswith("bounded stand-in"):
            obl = "bounded stand-in (iterator/mergeInto harness)"
        else:
            obl = "`" + obl + "`"
        caught = obl
    else:
        caught = "**missed** - " + WHY_MISSED.get(f"{p}/{n}", "not under contract")
    print(f"| {p}/{n} | {title} ({files}: {fns}) | {caught} |")
