#!/bin/bash
# usage: mut.sh <patch-file> <govc args...>   -- apply a patch to a scratch copy of /repo and run govc on it
set -u
patch=$(realpath "$1"); shift
d=$(mktemp -d /tmp/govc-mut.XXXXXX)
trap 'rm -rf "$d"' EXIT
cp /repo/*.go /repo/go.mod /repo/go.sum "$d"/
if ! (cd "$d" && patch -p1 -s < "$patch"); then echo "PATCH FAILED: $patch"; exit 9; fi
if [ "${MUT_BUILD:-0}" = 1 ]; then (cd "$d" && GOFLAGS=-mod=mod GOPROXY=off GOSUMDB=off GOTOOLCHAIN=local go build ./... ) || { echo "MUTANT DOES NOT COMPILE"; exit 8; }; fi
/verif/bin/govc "$@" --repo "$d"
