package moss

// Witnesses for findings S9 and S10 (properties C07/C11/C04, fixed): data of a
// child collection must survive persist -> compact (S9) and compact ->
// persist (S10).

import (
	"os"
	"testing"
)

type verifChildStore struct {
	t     *testing.T
	dir   string
	store *Store
	coll  Collection
	po    StorePersistOptions
}

func verifOpenChildStore(t *testing.T) *verifChildStore {
	dir, _ := os.MkdirTemp("", "verif-s9-")
	cs := &verifChildStore{t: t, dir: dir}
	store, err := OpenStore(dir, StoreOptions{})
	if err != nil {
		t.Fatal(err)
	}
	cs.store = store
	init, _ := store.Snapshot()
	co := CollectionOptions{LowerLevelInit: init, LowerLevelUpdate: func(higher Snapshot) (Snapshot, error) {
		return store.Persist(higher, cs.po)
	}}
	coll, err := NewCollection(co)
	if err != nil {
		t.Fatal(err)
	}
	coll.Start()
	cs.coll = coll
	return cs
}

func (cs *verifChildStore) setChild(child, k, v string) {
	b, _ := cs.coll.NewBatch(0, 0)
	cb, _ := b.NewChildCollectionBatch(child, BatchOptions{})
	cb.Set([]byte(k), []byte(v))
	if err := cs.coll.ExecuteBatch(b, WriteOptions{}); err != nil {
		cs.t.Fatal(err)
	}
	b.Close()
	for i := 0; i < 100000; i++ {
		cs.coll.(*collection).NotifyMerger("verif", true)
		st, _ := cs.coll.Stats()
		if st.CurDirtyOps == 0 && st.CurDirtySegments == 0 && st.CurDirtyBytes == 0 {
			return
		}
	}
	cs.t.Fatal("persistence did not catch up")
}

func (cs *verifChildStore) getChild(child, k string) string {
	ss, _ := cs.coll.Snapshot()
	defer ss.Close()
	css, err := ss.ChildCollectionSnapshot(child)
	if err != nil || css == nil {
		return "<no child>"
	}
	defer css.Close()
	v, _ := css.Get([]byte(k), ReadOptions{})
	if v == nil {
		return "<nil>"
	}
	return string(v)
}

func (cs *verifChildStore) close() {
	cs.coll.Close()
	cs.store.Close()
	os.RemoveAll(cs.dir)
}

func TestVerifWitnessS9(t *testing.T) { // persist, then compact
	cs := verifOpenChildStore(t)
	defer cs.close()
	cs.po = StorePersistOptions{CompactionConcern: CompactionDisable}
	cs.setChild("c", "k1", "v1")
	cs.po = StorePersistOptions{CompactionConcern: CompactionForce}
	cs.setChild("c", "k2", "v2")
	if got := cs.getChild("c", "k1"); got != "v1" {
		t.Fatalf("VERIF-WITNESS S9: child key written before a compaction is lost: k1=%s k2=%s", got, cs.getChild("c", "k2"))
	}
}

func TestVerifWitnessS10(t *testing.T) { // compact, then persist
	cs := verifOpenChildStore(t)
	defer cs.close()
	cs.po = StorePersistOptions{CompactionConcern: CompactionForce}
	cs.setChild("c", "k1", "v1")
	cs.po = StorePersistOptions{CompactionConcern: CompactionDisable}
	cs.setChild("c", "k2", "v2")
	if got := cs.getChild("c", "k1"); got != "v1" {
		t.Fatalf("VERIF-WITNESS S10: child key written by a compaction is lost by the next plain persist: k1=%s k2=%s", got, cs.getChild("c", "k2"))
	}
}
