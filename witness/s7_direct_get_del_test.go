package moss

// Witness for known finding S7 (property C10): Collection.Get falls through a
// Del in a newer section to the older sections / lower level, while a
// Snapshot taken at the same moment returns nil.

import (
	"os"
	"testing"
)

func TestVerifWitnessS7(t *testing.T) {
	dir, _ := os.MkdirTemp("", "verif-s7-")
	defer os.RemoveAll(dir)
	store, coll, err := OpenStoreCollection(dir, StoreOptions{}, StorePersistOptions{})
	if err != nil {
		t.Fatal(err)
	}
	defer store.Close()
	defer coll.Close()
	b, _ := coll.NewBatch(0, 0)
	b.Set([]byte("k"), []byte("v"))
	if err := coll.ExecuteBatch(b, WriteOptions{}); err != nil {
		t.Fatal(err)
	}
	b.Close()
	// wait until the batch reached the lower level
	for i := 0; i < 10000; i++ {
		st, _ := coll.Stats()
		if st.CurDirtyOps == 0 && st.CurDirtyBytes == 0 && st.CurDirtySegments == 0 {
			break
		}
		waitPersisted(coll)
	}
	b, _ = coll.NewBatch(0, 0)
	b.Del([]byte("k"))
	if err := coll.ExecuteBatch(b, WriteOptions{}); err != nil {
		t.Fatal(err)
	}
	b.Close()
	direct, _ := coll.Get([]byte("k"), ReadOptions{})
	ss, _ := coll.Snapshot()
	snap, _ := ss.Get([]byte("k"), ReadOptions{})
	ss.Close()
	if string(direct) != string(snap) || (direct == nil) != (snap == nil) {
		t.Fatalf("VERIF-WITNESS S7: Collection.Get=%q Snapshot.Get=%q (nil: %v vs %v)", direct, snap, direct == nil, snap == nil)
	}
}

func waitPersisted(coll Collection) {
	ch := make(chan struct{})
	go func() { coll.(*collection).NotifyMerger("verif", true); close(ch) }()
	<-ch
}
