package moss

// Witness for finding S25 (properties C20, C04; fixed): a batch that touches
// only child collections leaves no top-level segment in the top section; a
// merger that is not parked when it arrives must still count it as work and
// not go to sleep on it.

import (
	"testing"
	"time"
)

func TestVerifWitnessS25(t *testing.T) {
	c, err := NewCollection(CollectionOptions{})
	if err != nil {
		t.Fatal(err)
	}
	m := c.(*collection)
	// not started: no merger goroutine, the wait is called directly below
	b, err := m.NewBatch(0, 0)
	if err != nil {
		t.Fatal(err)
	}
	cb, err := b.NewChildCollectionBatch("child", BatchOptions{})
	if err != nil {
		t.Fatal(err)
	}
	if err = cb.Set([]byte("k"), []byte("v")); err != nil {
		t.Fatal(err)
	}
	if err = m.ExecuteBatch(b, WriteOptions{}); err != nil {
		t.Fatal(err)
	}
	done := make(chan bool, 1)
	go func() {
		stopped, _, _ := m.mergerWaitForWork(nil)
		done <- stopped
	}()
	select {
	case stopped := <-done:
		if stopped {
			t.Fatalf("unexpected stop")
		}
	case <-time.After(2 * time.Second):
		close(m.stopCh) // release the waiting goroutine
		<-done
		t.Fatalf("VERIF-WITNESS S25: the merger went to sleep although a batch that touches only a child collection waits in the top section")
	}
}
