package moss

// Witness for known finding S11 (properties C07/C11): level-based partial
// compaction applies the parent's splice point to the child footers, whose
// segment lists have a different length.

import (
	"fmt"
	"os"
	"testing"
)

func TestVerifWitnessS11(t *testing.T) {
	for _, maxSegs := range []int{2, 3, 4} {
		for _, childEvery := range []int{1000, 6, 3} {
			for first := 0; first < 14; first++ {
				verifS11Run(t, maxSegs, childEvery, first)
			}
		}
	}
}

func verifS11Run(t *testing.T, maxSegs, childEvery, first int) {
	dir, _ := os.MkdirTemp("", "verif-s11-")
	defer os.RemoveAll(dir)
	so := StoreOptions{CompactionLevelMaxSegments: maxSegs, CompactionLevelMultiplier: 3, CompactionPercentage: 1000.0}
	store, err := OpenStore(dir, so)
	if err != nil {
		t.Fatal(err)
	}
	defer store.Close()
	po := StorePersistOptions{CompactionConcern: CompactionAllow}
	init, _ := store.Snapshot()
	var perr error
	co := CollectionOptions{LowerLevelInit: init, LowerLevelUpdate: func(higher Snapshot) (ss Snapshot, err error) {
		defer func() {
			if r := recover(); r != nil {
				perr = fmt.Errorf("panic in Persist: %v", r)
				err = perr
			}
		}()
		return store.Persist(higher, po)
	}, OnError: func(err error) { perr = err }}
	coll, _ := NewCollection(co)
	coll.Start()
	defer coll.Close()
	want := map[string]string{}
	for i := 0; i < 40 && perr == nil; i++ {
		b, _ := coll.NewBatch(0, 0)
		b.Set([]byte(fmt.Sprintf("top%03d", i)), []byte("x"))
		if i >= first && (i-first)%childEvery == 0 {
			cb, _ := b.NewChildCollectionBatch("c", BatchOptions{})
			k := fmt.Sprintf("ck%03d", i)
			cb.Set([]byte(k), []byte("v"))
			want[k] = "v"
		}
		if err := coll.ExecuteBatch(b, WriteOptions{}); err != nil {
			t.Fatal(err)
		}
		b.Close()
		for j := 0; j < 100000 && perr == nil; j++ {
			coll.(*collection).NotifyMerger("verif", true)
			st, _ := coll.Stats()
			if st.CurDirtyOps == 0 && st.CurDirtySegments == 0 {
				break
			}
		}
	}
	sstats, _ := store.Stats()
	_ = sstats
	if perr != nil {
		t.Fatalf("VERIF-WITNESS S11: persistence failed (max %d segments per level, child every %d from batch %d): %v", maxSegs, childEvery, first, perr)
	}
	ss, _ := coll.Snapshot()
	defer ss.Close()
	css, _ := ss.ChildCollectionSnapshot("c")
	if css == nil {
		t.Fatalf("VERIF-WITNESS S11: child collection vanished")
	}
	defer css.Close()
	for k := range want {
		v, _ := css.Get([]byte(k), ReadOptions{})
		if string(v) != "v" {
			t.Fatalf("VERIF-WITNESS S11: child key %s lost after partial compactions (got %q)", k, v)
		}
	}
}
