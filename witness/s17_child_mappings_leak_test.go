package moss

// Witness for known finding S17 (property C15): after every handle, the
// collection and the store are closed, the mappings of child collection
// segments are still there.

import (
	"os"
	"strings"
	"testing"
)

func verifCountMappings(t *testing.T, dir string) int {
	b, err := os.ReadFile("/proc/self/maps")
	if err != nil {
		t.Skip("no /proc/self/maps")
	}
	n := 0
	for _, ln := range strings.Split(string(b), "\n") {
		if strings.Contains(ln, dir) {
			n++
		}
	}
	return n
}

func TestVerifWitnessS17(t *testing.T) {
	dir, _ := os.MkdirTemp("", "verif-s17-")
	defer os.RemoveAll(dir)
	store, coll, err := OpenStoreCollection(dir, StoreOptions{}, StorePersistOptions{})
	if err != nil {
		t.Fatal(err)
	}
	b, _ := coll.NewBatch(0, 0)
	b.Set([]byte("k"), []byte("v"))
	cb, _ := b.NewChildCollectionBatch("c", BatchOptions{})
	cb.Set([]byte("ck"), []byte("cv"))
	coll.ExecuteBatch(b, WriteOptions{})
	b.Close()
	for i := 0; i < 100000; i++ {
		coll.(*collection).NotifyMerger("verif", true)
		st, _ := coll.Stats()
		if st.CurDirtyOps == 0 && st.CurDirtySegments == 0 && st.TotPersisterLowerLevelUpdateEnd > 0 {
			break
		}
	}
	coll.Close()
	store.Close()
	if n := verifCountMappings(t, dir); n != 0 {
		t.Fatalf("VERIF-WITNESS S17: %d memory mappings of the store directory are still held after collection and store were closed", n)
	}
}
