package moss

// Witness for finding S5 (properties C01/C10/C19/C04, fixed): a persisted
// segment whose only key is the empty key has no key/value bytes at all; its
// loaded form had buf == nil, so Get("") could not tell "found" from "absent".

import (
	"os"
	"testing"
)

func verifS5Persist(t *testing.T, coll Collection, f func(b Batch)) {
	b, _ := coll.NewBatch(0, 0)
	f(b)
	if err := coll.ExecuteBatch(b, WriteOptions{}); err != nil {
		t.Fatal(err)
	}
	b.Close()
	for i := 0; i < 100000; i++ {
		coll.(*collection).NotifyMerger("verif", true)
		st, _ := coll.Stats()
		if st.CurDirtyOps == 0 && st.CurDirtySegments == 0 && st.CurDirtyBytes == 0 {
			return
		}
	}
	t.Fatal("persistence did not catch up")
}

func TestVerifWitnessS5(t *testing.T) {
	dir, _ := os.MkdirTemp("", "verif-s5-")
	defer os.RemoveAll(dir)
	store, coll, err := OpenStoreCollection(dir, StoreOptions{}, StorePersistOptions{CompactionConcern: CompactionDisable})
	if err != nil {
		t.Fatal(err)
	}
	defer store.Close()
	defer coll.Close()
	verifS5Persist(t, coll, func(b Batch) { b.Set([]byte(""), []byte("old")) })
	verifS5Persist(t, coll, func(b Batch) { b.Del([]byte("")) })
	ss, _ := coll.Snapshot()
	defer ss.Close()
	v, _ := ss.Get([]byte(""), ReadOptions{})
	if v != nil {
		t.Fatalf("VERIF-WITNESS S5: the empty key was deleted and the deletion persisted, but Get(\"\") returns %q", v)
	}
	verifS5Persist(t, coll, func(b Batch) { b.Set([]byte(""), []byte("")) })
	ss2, _ := coll.Snapshot()
	defer ss2.Close()
	v2, _ := ss2.Get([]byte(""), ReadOptions{})
	if v2 == nil {
		t.Fatalf("VERIF-WITNESS S5: Set(\"\", \"\") was persisted, but Get(\"\") returns nil instead of an empty value")
	}
}
