package moss

// Witness for finding S28 (properties C07/C11; reported by a seeding agent
// from reading the code, reproduced here): Store.Persist(nil, CompactionForce)
// compacts the footer's own stack (footer.ss), which carries neither child
// stacks nor the incarnation number, so the compacted footer has no child
// collections any more.

import (
	"os"
	"testing"
)

func TestVerifWitnessS28(t *testing.T) {
	dir, _ := os.MkdirTemp("", "verif-s28-")
	defer os.RemoveAll(dir)
	store, coll, err := OpenStoreCollection(dir, StoreOptions{}, StorePersistOptions{})
	if err != nil {
		t.Fatal(err)
	}
	for round := 0; round < 2; round++ {
		b, _ := coll.NewBatch(0, 0)
		b.Set([]byte{byte('a' + round)}, []byte("top"))
		cb, _ := b.NewChildCollectionBatch("c", BatchOptions{})
		cb.Set([]byte{byte('k' + round)}, []byte("child"))
		coll.ExecuteBatch(b, WriteOptions{})
		b.Close()
		for i := 0; i < 200000; i++ {
			coll.(*collection).NotifyMerger("verif", true)
			st, _ := coll.Stats()
			if st.CurDirtyOps == 0 && st.CurDirtySegments == 0 && st.TotPersisterLowerLevelUpdateEnd > uint64(round) {
				break
			}
		}
	}
	coll.Close()

	read := func(what string) {
		ss, err := store.Snapshot()
		if err != nil || ss == nil {
			t.Fatalf("%s: snapshot: %v", what, err)
		}
		defer ss.Close()
		cs, _ := ss.ChildCollectionSnapshot("c")
		if cs == nil {
			t.Fatalf("VERIF-WITNESS S28: %s: the child collection is gone", what)
		}
		defer cs.Close()
		v, _ := cs.Get([]byte("k"), ReadOptions{})
		if string(v) != "child" {
			t.Fatalf("VERIF-WITNESS S28: %s: child key reads %q", what, v)
		}
	}
	read("before compaction")
	if _, err := store.Persist(nil, StorePersistOptions{CompactionConcern: CompactionForce}); err != nil {
		t.Fatalf("Persist(nil, CompactionForce): %v", err)
	}
	read("after a compaction without incoming data")
	store.Close()
}
