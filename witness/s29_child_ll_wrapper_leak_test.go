package moss

// Witness for finding S29 (property C15; reported by a seeding agent from
// reading the code, reproduced here): a collection snapshot of a store-backed
// collection with child collections takes, per child, a reference on the
// child's footer (appendChildLLSnapshot -> Footer.ChildCollectionSnapshot)
// and wraps it in the child stack's lowerLevelSnapshot.  Closing the snapshot
// only releases the top-level wrapper (segmentStack.decRef does not descend
// into childSegStacks), so every snapshot leaks one reference per child
// footer: mappings and files of child collections are never released.

import (
	"os"
	"testing"
)

func TestVerifWitnessS29(t *testing.T) {
	dir, _ := os.MkdirTemp("", "verif-s29-")
	defer os.RemoveAll(dir)
	store, coll, err := OpenStoreCollection(dir, StoreOptions{}, StorePersistOptions{})
	if err != nil {
		t.Fatal(err)
	}
	b, _ := coll.NewBatch(0, 0)
	b.Set([]byte("a"), []byte("top"))
	cb, _ := b.NewChildCollectionBatch("c", BatchOptions{})
	cb.Set([]byte("k"), []byte("child"))
	coll.ExecuteBatch(b, WriteOptions{})
	b.Close()
	for i := 0; i < 200000; i++ {
		coll.(*collection).NotifyMerger("verif", true)
		st, _ := coll.Stats()
		if st.CurDirtyOps == 0 && st.CurDirtySegments == 0 && st.TotPersisterLowerLevelUpdateEnd > 0 {
			break
		}
	}
	store.m.Lock()
	child := store.footer.ChildFooters["c"]
	store.m.Unlock()
	if child == nil {
		t.Fatal("setup: no child footer")
	}
	refs := func() int {
		child.m.Lock()
		defer child.m.Unlock()
		return child.refs
	}
	before := refs()
	for i := 0; i < 5; i++ {
		ss, err := coll.Snapshot()
		if err != nil {
			t.Fatal(err)
		}
		ss.Close()
		// make sure the next Snapshot() builds a new stack instead of reusing the cached one
		coll.(*collection).m.Lock()
		coll.(*collection).invalidateLatestSnapshotLOCKED()
		coll.(*collection).m.Unlock()
	}
	after := refs()
	if after != before {
		t.Fatalf("VERIF-WITNESS S29: taking and closing 5 collection snapshots changed the child footer's reference count from %d to %d", before, after)
	}
	coll.Close()
	store.Close()
}
