package moss

// Witnesses for finding S16 (properties C12/C11, fixed): after SnapshotRevert
// (a) the history before the revert stays reachable through SnapshotPrevious,
// (b) child collection data of the reverted content survives the next persist.

import (
	"os"
	"testing"
)

func verifS16Persist(t *testing.T, coll Collection, child, k, v string) {
	b, _ := coll.NewBatch(0, 0)
	b.Set([]byte("top-"+k), []byte(v))
	if child != "" {
		cb, _ := b.NewChildCollectionBatch(child, BatchOptions{})
		cb.Set([]byte(k), []byte(v))
	}
	if err := coll.ExecuteBatch(b, WriteOptions{}); err != nil {
		t.Fatal(err)
	}
	b.Close()
	for i := 0; i < 100000; i++ {
		coll.(*collection).NotifyMerger("verif", true)
		st, _ := coll.Stats()
		if st.CurDirtyOps == 0 && st.CurDirtySegments == 0 && st.CurDirtyBytes == 0 {
			return
		}
	}
	t.Fatal("persistence did not catch up")
}

func TestVerifWitnessS16History(t *testing.T) {
	dir, _ := os.MkdirTemp("", "verif-s16-")
	defer os.RemoveAll(dir)
	store, coll, err := OpenStoreCollection(dir, StoreOptions{}, StorePersistOptions{CompactionConcern: CompactionDisable})
	if err != nil {
		t.Fatal(err)
	}
	defer store.Close()
	defer coll.Close()
	for i, k := range []string{"a", "b", "c", "d"} {
		_ = i
		verifS16Persist(t, coll, "", k, "v")
	}
	cur, _ := store.Snapshot()
	p1, _ := store.SnapshotPrevious(cur) // round 3
	p2, _ := store.SnapshotPrevious(p1)  // round 2
	if p2 == nil {
		t.Fatal("setup: no history")
	}
	if err := store.SnapshotRevert(p2); err != nil {
		t.Fatal(err)
	}
	cur2, _ := store.Snapshot()
	back, _ := store.SnapshotPrevious(cur2)
	if back == nil {
		t.Fatalf("VERIF-WITNESS S16: after SnapshotRevert the history before the revert is unreachable (SnapshotPrevious(current) == nil)")
	}
	v, _ := back.Get([]byte("top-d"), ReadOptions{})
	if string(v) != "v" {
		t.Fatalf("VERIF-WITNESS S16: the footer before the reverted one is not the one that was current (top-d=%q)", v)
	}
}

func TestVerifWitnessS16Child(t *testing.T) {
	dir, _ := os.MkdirTemp("", "verif-s16c-")
	defer os.RemoveAll(dir)
	store, coll, err := OpenStoreCollection(dir, StoreOptions{}, StorePersistOptions{CompactionConcern: CompactionDisable})
	if err != nil {
		t.Fatal(err)
	}
	defer store.Close()
	defer coll.Close()
	verifS16Persist(t, coll, "c", "k1", "v1")
	verifS16Persist(t, coll, "c", "k2", "v2")
	cur, _ := store.Snapshot()
	p1, _ := store.SnapshotPrevious(cur)
	if p1 == nil {
		t.Fatal("setup: no history")
	}
	if err := store.SnapshotRevert(p1); err != nil {
		t.Fatal(err)
	}
	verifS16Persist(t, coll, "c", "k3", "v3")
	ss, _ := store.Snapshot()
	css, _ := ss.ChildCollectionSnapshot("c")
	if css == nil {
		t.Fatalf("VERIF-WITNESS S16: child collection lost after revert + persist")
	}
	v, _ := css.Get([]byte("k1"), ReadOptions{})
	if string(v) != "v1" {
		t.Fatalf("VERIF-WITNESS S16: child data of the reverted content lost by the next persist: k1=%q", v)
	}
}
