package moss

// Witness for finding S18 (property C16, fixed): ResetStackDirtyTop makes room
// in the top section, so a writer blocked on back-pressure must be woken.

import (
	"testing"
	"time"
)

func TestVerifWitnessS18(t *testing.T) {
	m, _ := NewCollection(CollectionOptions{MaxPreMergerBatches: 1})
	// not started: nothing drains the top section
	put := func(k string) error {
		b, _ := m.NewBatch(0, 0)
		b.Set([]byte(k), []byte("v"))
		return m.ExecuteBatch(b, WriteOptions{})
	}
	if err := put("a"); err != nil {
		t.Fatal(err)
	}
	done := make(chan error, 1)
	go func() { done <- put("b") }() // blocks: the top section is full
	time.Sleep(100 * time.Millisecond)
	m.(*collection).ResetStackDirtyTop()
	select {
	case <-done:
	case <-time.After(2 * time.Second):
		c := m.(*collection)
		c.m.Lock()
		c.stackDirtyTopCond.Broadcast() // release the writer
		c.m.Unlock()
		<-done
		t.Fatalf("VERIF-WITNESS S18: a writer blocked on back-pressure stayed blocked after ResetStackDirtyTop emptied the top section")
	}
}
