package moss

// Witness for finding S3 (properties C05, C04; fixed): a newest data file
// whose header cannot be read (created by a crash before the header page was
// written: empty or short) must be skipped like any other unusable file, so
// that the store opens on the older file.

import (
	"io/ioutil"
	"os"
	"path"
	"testing"
)

func TestVerifWitnessS3(t *testing.T) {
	dir, _ := ioutil.TempDir("", "verif-s3-")
	defer os.RemoveAll(dir)
	store, err := OpenStore(dir, StoreOptions{})
	if err != nil {
		t.Fatal(err)
	}
	coll, _ := NewCollection(CollectionOptions{})
	coll.Start()
	b, _ := coll.NewBatch(0, 0)
	b.Set([]byte("k"), []byte("v"))
	if err = coll.ExecuteBatch(b, WriteOptions{}); err != nil {
		t.Fatal(err)
	}
	ss, _ := coll.Snapshot()
	llss, err := store.Persist(ss, StorePersistOptions{})
	if err != nil {
		t.Fatal(err)
	}
	llss.Close()
	ss.Close()
	coll.Close()
	store.Close()

	// a crash right after the next data file was created: no header yet
	if err = ioutil.WriteFile(path.Join(dir, FormatFName(7)), nil, 0600); err != nil {
		t.Fatal(err)
	}

	store2, err := OpenStore(dir, StoreOptions{})
	if err != nil {
		t.Fatalf("VERIF-WITNESS S3: the store does not open although an older complete data file exists: %v", err)
	}
	defer store2.Close()
	s2, _ := store2.Snapshot()
	defer s2.Close()
	v, err := s2.Get([]byte("k"), ReadOptions{})
	if err != nil || string(v) != "v" {
		t.Fatalf("VERIF-WITNESS S3: reopened store lost the persisted key: %q %v", v, err)
	}
}
