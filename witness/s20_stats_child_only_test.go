package moss

// Witness for finding S20 (property C20, fixed): a batch that touches only a
// child collection must show up in the dirty gauges while it is not persisted.

import "testing"

func TestVerifWitnessS20(t *testing.T) {
	m, err := NewCollection(CollectionOptions{})
	if err != nil {
		t.Fatal(err)
	}
	// not started: nothing is merged or persisted, the batch stays dirty
	b, _ := m.NewBatch(0, 0)
	cb, _ := b.NewChildCollectionBatch("child", BatchOptions{})
	cb.Set([]byte("k"), []byte("v"))
	if err := m.ExecuteBatch(b, WriteOptions{}); err != nil {
		t.Fatal(err)
	}
	st, _ := m.Stats()
	if st.CurDirtyOps == 0 && st.CurDirtyBytes == 0 && st.CurDirtySegments == 0 {
		t.Fatalf("VERIF-WITNESS S20: child-only batch is dirty but gauges are ops=%d bytes=%d segments=%d", st.CurDirtyOps, st.CurDirtyBytes, st.CurDirtySegments)
	}
}
