package moss

// Witness for known finding S12 (properties C02/C15/C11): child footers read
// back from disk have refs == 0, so closing the first child snapshot taken
// from a store snapshot releases the child's segments for everybody.

import (
	"os"
	"testing"
)

func TestVerifWitnessS12(t *testing.T) {
	dir, _ := os.MkdirTemp("", "verif-s12-")
	defer os.RemoveAll(dir)
	store, coll, err := OpenStoreCollection(dir, StoreOptions{}, StorePersistOptions{})
	if err != nil {
		t.Fatal(err)
	}
	b, _ := coll.NewBatch(0, 0)
	cb, _ := b.NewChildCollectionBatch("c", BatchOptions{})
	cb.Set([]byte("ck"), []byte("cv"))
	coll.ExecuteBatch(b, WriteOptions{})
	b.Close()
	for i := 0; i < 100000; i++ {
		coll.(*collection).NotifyMerger("verif", true)
		st, _ := coll.Stats()
		if st.CurDirtyOps == 0 && st.CurDirtySegments == 0 && st.TotPersisterLowerLevelUpdateEnd > 0 {
			break
		}
	}
	coll.Close()
	store.Close()

	store2, err := OpenStore(dir, StoreOptions{})
	if err != nil {
		t.Fatal(err)
	}
	defer store2.Close()
	ss, _ := store2.Snapshot() // stays open
	defer ss.Close()
	c1, _ := ss.ChildCollectionSnapshot("c")
	if c1 == nil {
		t.Fatal("setup: no child")
	}
	v1, _ := c1.Get([]byte("ck"), ReadOptions{})
	c1.Close() // closing one child snapshot ...
	c2, _ := ss.ChildCollectionSnapshot("c")
	var v2 []byte
	var err2 error
	func() {
		defer func() {
			if r := recover(); r != nil {
				t.Fatalf("VERIF-WITNESS S12: reading the child again through the still open store snapshot panicked: %v", r)
			}
		}()
		v2, err2 = c2.Get([]byte("ck"), ReadOptions{})
	}()
	if string(v1) != "cv" || string(v2) != "cv" || err2 != nil {
		t.Fatalf("VERIF-WITNESS S12: ... invalidated the child for the still open store snapshot: first read %q, second read %q err=%v", v1, v2, err2)
	}
}
