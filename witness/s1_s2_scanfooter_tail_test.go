package moss

// Witnesses for findings S1 and S2 (properties C05/C19, fixed): whatever a
// crash leaves after the last complete footer, the store opens and shows the
// content of that footer.

import (
	"encoding/binary"
	"os"
	"path"
	"testing"
)

func verifMakeStore(t *testing.T) (dir, fname string) {
	dir, _ = os.MkdirTemp("", "verif-s1-")
	store, coll, err := OpenStoreCollection(dir, StoreOptions{}, StorePersistOptions{})
	if err != nil {
		t.Fatal(err)
	}
	b, _ := coll.NewBatch(0, 0)
	b.Set([]byte("k"), []byte("v"))
	coll.ExecuteBatch(b, WriteOptions{})
	b.Close()
	for i := 0; i < 100000; i++ {
		coll.(*collection).NotifyMerger("verif", true)
		st, _ := coll.Stats()
		if st.CurDirtyOps == 0 && st.CurDirtySegments == 0 && st.TotPersisterLowerLevelUpdateEnd > 0 {
			break
		}
	}
	coll.Close()
	store.Close()
	es, _ := os.ReadDir(dir)
	if len(es) != 1 {
		t.Fatalf("setup: %d files", len(es))
	}
	return dir, path.Join(dir, es[0].Name())
}

func verifAppendAtPage(t *testing.T, fname string, tail []byte) {
	fi, _ := os.Stat(fname)
	pos := pageAlignCeil(fi.Size())
	f, _ := os.OpenFile(fname, os.O_RDWR, 0600)
	defer f.Close()
	if _, err := f.WriteAt(tail, pos); err != nil {
		t.Fatal(err)
	}
}

func verifReopenExpect(t *testing.T, tag, dir string) {
	defer func() {
		if r := recover(); r != nil {
			t.Fatalf("VERIF-WITNESS %s: reopening panicked: %v", tag, r)
		}
	}()
	store, coll, err := OpenStoreCollection(dir, StoreOptions{}, StorePersistOptions{})
	if err != nil {
		t.Fatalf("VERIF-WITNESS %s: the store does not open any more: %v", tag, err)
	}
	defer store.Close()
	defer coll.Close()
	v, _ := coll.Get([]byte("k"), ReadOptions{})
	if string(v) != "v" {
		t.Fatalf("VERIF-WITNESS %s: content lost: k=%q", tag, v)
	}
}

func TestVerifWitnessS1(t *testing.T) { // a few stray bytes just past a page boundary
	dir, fname := verifMakeStore(t)
	defer os.RemoveAll(dir)
	verifAppendAtPage(t, fname, []byte("torn"))
	verifReopenExpect(t, "S1", dir)
}

func TestVerifWitnessS2(t *testing.T) { // look-alikes of the footer magic in the tail
	for _, length := range []uint32{0, 7, 19, 20, 31, 43, 44, 4096, 1 << 31} {
		dir, fname := verifMakeStore(t)
		tail := append([]byte{}, StoreMagicBeg...)
		tail = append(tail, StoreMagicBeg...)
		var w [8]byte
		binary.LittleEndian.PutUint32(w[0:4], StoreVersion)
		binary.LittleEndian.PutUint32(w[4:8], length)
		tail = append(tail, w[:]...)
		tail = append(tail, make([]byte, 64)...)
		verifAppendAtPage(t, fname, tail)
		verifReopenExpect(t, "S2", dir)
		os.RemoveAll(dir)
	}
}
