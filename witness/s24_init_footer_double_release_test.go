package moss

// Witness for finding S24 (properties C02/C15): the LowerLevelUpdate closure
// built by Store.openCollection closes the store snapshot the collection was
// opened on, although the collection's SnapshotWrapper owns (and closes) that
// very reference.  After the first successful persist the initial footer has
// lost one reference too many: a collection snapshot taken before that
// persist stops returning the persisted keys.

import (
	"os"
	"testing"
)

func TestVerifWitnessS24(t *testing.T) {
	dir, _ := os.MkdirTemp("", "verif-s24-")
	defer os.RemoveAll(dir)
	store, coll, err := OpenStoreCollection(dir, StoreOptions{}, StorePersistOptions{})
	if err != nil {
		t.Fatal(err)
	}
	b, _ := coll.NewBatch(0, 0)
	b.Set([]byte("k"), []byte("v"))
	coll.ExecuteBatch(b, WriteOptions{})
	b.Close()
	drain := func(c Collection, minUpdates uint64) {
		for i := 0; i < 200000; i++ {
			c.(*collection).NotifyMerger("verif", true)
			st, _ := c.Stats()
			if st.CurDirtyOps == 0 && st.CurDirtySegments == 0 && st.TotPersisterLowerLevelUpdateEnd >= minUpdates {
				return
			}
		}
		t.Fatal("setup: persistence did not catch up")
	}
	drain(coll, 1)
	coll.Close()
	store.Close()

	store2, coll2, err := OpenStoreCollection(dir, StoreOptions{}, StorePersistOptions{})
	if err != nil {
		t.Fatal(err)
	}
	defer store2.Close()
	defer coll2.Close()
	ss, err := coll2.Snapshot() // taken before the first persist of this session; stays open
	if err != nil {
		t.Fatal(err)
	}
	defer ss.Close()
	v0, _ := ss.Get([]byte("k"), ReadOptions{})
	if string(v0) != "v" {
		t.Fatalf("setup: reopened collection does not show the persisted key: %q", v0)
	}
	b2, _ := coll2.NewBatch(0, 0)
	b2.Set([]byte("k2"), []byte("v2"))
	coll2.ExecuteBatch(b2, WriteOptions{})
	b2.Close()
	drain(coll2, 1)
	var v1 []byte
	var err1 error
	func() {
		defer func() {
			if r := recover(); r != nil {
				t.Fatalf("VERIF-WITNESS S24: re-reading the open snapshot after a persist panicked: %v", r)
			}
		}()
		v1, err1 = ss.Get([]byte("k"), ReadOptions{})
	}()
	if string(v1) != "v" || err1 != nil {
		t.Fatalf("VERIF-WITNESS S24: a snapshot taken before the first persist of the session lost the persisted key afterwards: %q err=%v (was %q)", v1, err1, v0)
	}
}
