package moss

// Witness for finding S8 (property C18, fixed): opening a store ReadOnly must
// not delete the other data files of the directory.

import (
	"os"
	"path"
	"testing"
)

func TestVerifWitnessS8(t *testing.T) {
	dir, _ := os.MkdirTemp("", "verif-s8-")
	defer os.RemoveAll(dir)
	store, coll, err := OpenStoreCollection(dir, StoreOptions{}, StorePersistOptions{})
	if err != nil {
		t.Fatal(err)
	}
	b, _ := coll.NewBatch(0, 0)
	b.Set([]byte("k"), []byte("v"))
	coll.ExecuteBatch(b, WriteOptions{})
	b.Close()
	waitPersistedS8(coll)
	coll.Close()
	store.Close()
	// an older (stale) data file in the same directory
	old := path.Join(dir, FormatFName(0))
	if err := os.WriteFile(old, []byte("stale"), 0600); err != nil {
		t.Fatal(err)
	}
	before, _ := os.ReadDir(dir)
	ro := StoreOptions{CollectionOptions: CollectionOptions{ReadOnly: true}}
	s2, err := OpenStore(dir, ro)
	if err != nil {
		t.Fatal(err)
	}
	s2.Close()
	after, _ := os.ReadDir(dir)
	if len(after) != len(before) {
		t.Fatalf("VERIF-WITNESS S8: ReadOnly open changed the directory: %d entries before, %d after", len(before), len(after))
	}
}

func waitPersistedS8(coll Collection) {
	for i := 0; i < 1000; i++ {
		coll.(*collection).NotifyMerger("verif", true)
		st, _ := coll.Stats()
		if st.CurDirtyOps == 0 && st.CurDirtySegments == 0 && st.TotPersisterLowerLevelUpdateEnd > 0 {
			return
		}
	}
}
