package moss

// Witness for known finding S23 (property C09): with IncludeDeletions a forward
// SeekTo walks with naiveSeekTo, which reads keys through Current(); Current()
// hides the key of a deletion entry, so deletion entries >= the seek key are
// skipped although the iterator was asked to enumerate them.

import "testing"

func TestVerifWitnessS23(t *testing.T) {
	m, _ := NewCollection(CollectionOptions{})
	b, _ := m.NewBatch(0, 0)
	b.Set([]byte("a"), []byte("1"))
	b.Del([]byte("b"))
	b.Set([]byte("c"), []byte("3"))
	if err := m.ExecuteBatch(b, WriteOptions{}); err != nil {
		t.Fatal(err)
	}
	ss, _ := m.Snapshot()
	defer ss.Close()
	it, err := ss.StartIterator(nil, nil, IteratorOptions{IncludeDeletions: true})
	if err != nil {
		t.Fatal(err)
	}
	defer it.Close()
	if _, k, _, _ := it.CurrentEx(); string(k) != "a" {
		t.Fatalf("setup: first key %q", k)
	}
	if err := it.SeekTo([]byte("b")); err != nil {
		t.Fatal(err)
	}
	ex, k, _, _ := it.CurrentEx()
	if string(k) != "b" || ex.Operation != OperationDel {
		t.Fatalf("VERIF-WITNESS S23: SeekTo(\"b\") with IncludeDeletions landed on %q (op %x), skipping the deletion entry \"b\"", k, ex.Operation)
	}
}
