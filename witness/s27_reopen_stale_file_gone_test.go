package moss

// Witness for finding S27 (property C04; the cause of the rare "expected
// reopen store to work" failures of TestStoreCompactionDeletions and
// TestStoreNilValue): openStore lists the data files, loads the newest one
// and then removes the others; when one of the others has disappeared in the
// meantime (the previous Store instance removes superseded files
// asynchronously, after Close has returned) os.Remove fails and the whole
// open fails although the newest file is intact.

import (
	"os"
	"path"
	"testing"
)

func TestVerifWitnessS27(t *testing.T) {
	dir, _ := os.MkdirTemp("", "verif-s27-")
	defer os.RemoveAll(dir)
	store, coll, err := OpenStoreCollection(dir, StoreOptions{}, StorePersistOptions{})
	if err != nil {
		t.Fatal(err)
	}
	b, _ := coll.NewBatch(0, 0)
	b.Set([]byte("k"), []byte("v"))
	coll.ExecuteBatch(b, WriteOptions{})
	b.Close()
	for i := 0; i < 200000; i++ {
		coll.(*collection).NotifyMerger("verif", true)
		st, _ := coll.Stats()
		if st.CurDirtyOps == 0 && st.CurDirtySegments == 0 && st.TotPersisterLowerLevelUpdateEnd > 0 {
			break
		}
	}
	coll.Close()
	store.Close()

	// a superseded file of an earlier generation that is still in the directory
	stale := path.Join(dir, "data-0000000000000000.moss")
	cur, err := os.ReadFile(path.Join(dir, "data-0000000000000001.moss"))
	if err != nil {
		t.Fatalf("setup: %v", err)
	}
	if err = os.WriteFile(stale, cur, 0600); err != nil {
		t.Fatal(err)
	}
	// ... which disappears (as the asynchronous removal of the previous
	// Store instance would make it) after openStore has listed the directory
	opts := StoreOptions{OpenFile: func(name string, flag int, perm os.FileMode) (File, error) {
		os.Remove(stale)
		return os.OpenFile(name, flag, perm)
	}}
	store2, err := OpenStore(dir, opts)
	if err != nil {
		t.Fatalf("VERIF-WITNESS S27: reopening fails because a superseded file vanished during cleanup: %v", err)
	}
	defer store2.Close()
	ss, _ := store2.Snapshot()
	defer ss.Close()
	if v, _ := ss.Get([]byte("k"), ReadOptions{}); string(v) != "v" {
		t.Fatalf("VERIF-WITNESS S27: reopened store lost the key: %q", v)
	}
}
