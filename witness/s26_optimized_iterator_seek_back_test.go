package moss

// Witness for finding S26 (property C09, found by the bounded stand-in
// bounded/iter_merge_bounded_test.go): StartIterator() turns the heap
// iterator into a single-segment iterator when only one cursor is left AFTER
// the leading deletion has been skipped.  The segment that held the
// tombstone is forgotten, so a SeekTo() at or before the current position
// enumerates the deleted key again.

import "testing"

func TestVerifWitnessS26(t *testing.T) {
	m, err := NewCollection(CollectionOptions{})
	if err != nil {
		t.Fatal(err)
	}
	// not started: no merger, the two batches stay two segments
	b, _ := m.NewBatch(0, 0)
	b.Set([]byte("a"), []byte("A"))
	b.Set([]byte("b"), []byte("B"))
	m.ExecuteBatch(b, WriteOptions{})
	b.Close()
	b, _ = m.NewBatch(0, 0)
	b.Del([]byte("a"))
	m.ExecuteBatch(b, WriteOptions{})
	b.Close()

	ss, err := m.Snapshot()
	if err != nil {
		t.Fatal(err)
	}
	defer ss.Close()
	if v, _ := ss.Get([]byte("a"), ReadOptions{}); v != nil {
		t.Fatalf("setup: a should be deleted, Get returned %q", v)
	}
	it, err := ss.StartIterator(nil, nil, IteratorOptions{})
	if err != nil {
		t.Fatal(err)
	}
	defer it.Close()
	k, _, err := it.Current()
	if err != nil || string(k) != "b" {
		t.Fatalf("setup: first entry should be b, got %q %v", k, err)
	}
	if err = it.SeekTo([]byte("a")); err != nil {
		t.Fatalf("SeekTo: %v", err)
	}
	k, v, err := it.Current()
	if err != nil || string(k) != "b" {
		t.Fatalf("VERIF-WITNESS S26: after SeekTo(\"a\") the iterator shows %q=%q (err %v); the deleted key a must not be enumerated, b is the first live key", k, v, err)
	}
}
