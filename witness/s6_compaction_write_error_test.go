package moss

// Witness for finding S6 (properties C06/C07, fixed): a failing or short
// WriteAt while compaction writes the merged segment must surface as an error
// of Persist, and the old file must stay in place.

import (
	"errors"
	"os"
	"sync/atomic"
	"testing"
)

type verifFaultFile struct {
	File
	failWrites *int32 // when > 0: fail every WriteAt that is not the footer/header (len < 4096 or not)
	short      *int32
}

func (f *verifFaultFile) OsFile() *os.File { return f.File.(*os.File) }

var errVerifInjected = errors.New("verif: injected write failure")

func (f *verifFaultFile) WriteAt(p []byte, off int64) (int, error) {
	isFooter := len(p) >= len(StoreMagicBeg) && string(p[:len(StoreMagicBeg)]) == string(StoreMagicBeg)
	if atomic.LoadInt32(f.failWrites) > 0 && off >= 4096 && !isFooter {
		return 0, errVerifInjected
	}
	if atomic.LoadInt32(f.short) > 0 && off >= 4096 && len(p) > 1 && !isFooter {
		return f.File.WriteAt(p[:len(p)/2], off)
	}
	return f.File.WriteAt(p, off)
}

func verifS6Run(t *testing.T, tag string, which **int32, fail, short *int32) {
	dir, _ := os.MkdirTemp("", "verif-s6-")
	defer os.RemoveAll(dir)
	so := StoreOptions{OpenFile: func(name string, flag int, perm os.FileMode) (File, error) {
		f, err := os.OpenFile(name, flag, perm)
		if err != nil {
			return nil, err
		}
		return &verifFaultFile{File: f, failWrites: fail, short: short}, nil
	}}
	store, err := OpenStore(dir, so)
	if err != nil {
		t.Fatal(err)
	}
	defer store.Close()
	mk := func(k, v string) Snapshot {
		c, _ := NewCollection(CollectionOptions{})
		b, _ := c.NewBatch(0, 0)
		b.Set([]byte(k), []byte(v))
		c.ExecuteBatch(b, WriteOptions{})
		ss, _ := c.Snapshot()
		return ss
	}
	if _, err := store.Persist(mk("a", "1"), StorePersistOptions{CompactionConcern: CompactionDisable}); err != nil {
		t.Fatal(err)
	}
	atomic.StoreInt32(*which, 1)
	_, err = store.Persist(mk("b", "2"), StorePersistOptions{CompactionConcern: CompactionForce})
	atomic.StoreInt32(*which, 0)
	if err == nil {
		ss, _ := store.Snapshot()
		va, ea := ss.Get([]byte("a"), ReadOptions{})
		t.Fatalf("VERIF-WITNESS S6 (%s): Persist with compaction reported success although every data write failed; afterwards Get(a)=%q err=%v", tag, va, ea)
	}
	ss, _ := store.Snapshot()
	va, ea := ss.Get([]byte("a"), ReadOptions{})
	if ea != nil || string(va) != "1" {
		t.Fatalf("VERIF-WITNESS S6 (%s): after the failed compaction the store lost its content: Get(a)=%q err=%v", tag, va, ea)
	}
}

func TestVerifWitnessS6(t *testing.T) {
	var fail, short int32
	p := &fail
	verifS6Run(t, "failing writes", &p, &fail, &short)
	q := &short
	verifS6Run(t, "short writes", &q, &fail, &short)
}
